#!/usr/bin/env python3
"""Runs the repository's pinned test suite (hooks guard OFF) and compares with BASELINE.json:
every test in stable_pass must pass. Exit 0 iff so."""
import json, os, subprocess, sys, tempfile, xml.etree.ElementTree as ET

REPO = os.environ.get("VERIF_REPO", "/repo")
base = json.load(open("/root/.vp/BASELINE.json"))
env = dict(os.environ)
env.pop("AMARANTH_VERIF", None)
with tempfile.TemporaryDirectory() as d:
    out = os.path.join(d, "junit.xml")
    subprocess.run(["/venv/bin/python", "-m", "pytest", "-ra", "-q", "-p", "no:cacheprovider", "--timeout=900",
                    "--continue-on-collection-errors", f"--junitxml={out}"], cwd=REPO, env=env,
                   stdout=subprocess.DEVNULL, stderr=subprocess.DEVNULL)
    passed = set()
    for tc in ET.parse(out).getroot().iter("testcase"):
        if not any(c.tag in ("failure", "error", "skipped") for c in tc):
            passed.add(f"{tc.get('classname')}::{tc.get('name')}")
missing = [t for t in base["stable_pass"] if t not in passed]
print(f"baseline: {len(base['stable_pass'])} stable tests, {len(passed)} passed now, {len(missing)} regressions")
for t in missing[:30]:
    print("  REGRESSION", t)
sys.exit(1 if missing else 0)
