#!/usr/bin/env python3
"""Generates /verif/MANIFEST.json from the table below (and validates it against the schema if
jsonschema is importable). Run after adding or changing a check."""
import json, os, sys

HERE = os.path.dirname(os.path.dirname(os.path.abspath(__file__)))

# pid -> (category, technique, level text, level note, design ref)
CHECKS = {
    "C01": ("exploration",
            "exhaustive operand-value sweep per operator and shape pair + Hypothesis-generated operator compositions, "
            "differential against an exact Python-integer reference interpreter",
            "For every ordered pair of operand shapes up to 3 (quick) / 4 (thorough) bits, every documented operator "
            "is simulated on ALL operand values, observed directly in a widened target and through a variable "
            "part-select reaching above the MSB; random typed compositions up to depth 3/5 are simulated on "
            "exhaustive or corner input vectors. Value and reported shape are compared with an independent "
            "reference interpreter which also asserts that the exact result fits the documented shape. "
            "Exhaustive on small widths (where sign/width corner cases all occur), sampled beyond.",
            "Reference semantics in vlib/refsem.py written from docs/guide.rst and the Value docstrings. "
            "Inputs outside the documented domain (listed in the evidence assumptions) are not generated.",
            "DESIGN.md §2, §4 C01"),
    "C02": ("exploration",
            "Hypothesis-generated Module-DSL programs + event sequences, differential against a reference statement interpreter",
            "Random one-module programs (every assignable target form, If/Elif/Else, Switch with all pattern kinds and "
            "unreachable cases, FSM/next/ongoing, comb and sync targets, resets) are simulated event by event and every "
            "target is compared after every event with an independent per-bit 'last active assignment wins' interpreter. "
            "Sampling is the only option for an unbounded program space; generator class counters (all constructs, "
            "two different branches actually taken) guard against vacuity.",
            "Reference interpreter in vlib/refsem.py (Interp, lhs_map). Acyclic single-module designs; one sync domain with a "
            "synchronous reset (domain/reset variety is C03's job).",
            "DESIGN.md §2, §4 C02"),
    "C05": ("exploration",
            "exhaustive small-width sweep + Hypothesis-generated expressions and nested write targets; three-way differential "
            "(testbench get/set vs circuit in the same simulator vs reference interpreter)",
            "Reads: every C01 sweep expression and random compositions are evaluated by ctx.get() and by a combinational "
            "signal in the same simulation, both compared with the reference value. Writes: random nested targets over "
            "undriven signals and memory rows are written by ctx.set(), by the equivalent clocked assignment statement and "
            "in the reference per-bit model (targets may name a signal twice; the later part decides); the whole state must "
            "agree after every write. Shape-castable signals (struct layouts with enum fields, signed enumerations, enumeration-"
            "shaped memory rows) round-trip through from_bits/const. Array proxies with signed, too narrow or too wide "
            "indices are read and written from the testbench and by a circuit and must agree.",
            "Reference per-bit assignment model (vlib/refsem.py lhs_map/assign_bits). Memory rows are registers in the circuit variant.",
            "DESIGN.md §4 C05"),
    "C10": ("exploration",
            "exhaustive enumeration of small boxes + Hypothesis property tests against a brute-force oracle",
            "Every range / (value, shape) / helper argument in a stated finite box is enumerated and compared "
            "with a brute-force search for the narrowest fitting shape and a modular wrap; wide integers, "
            "enumerations, constant Cat/Slice trees, signal inits and memory rows (constructor, setter, index and slice assignment) are sampled with Hypothesis. "
            "Exhaustive inside the boxes, sampled outside: right for a pure arithmetic property whose "
            "failures cluster at powers of two and sign boundaries, which the boxes and the biased "
            "generator cover densely.",
            "Oracle: brute-force search written in vlib/refsem.py (shares no code with amaranth). "
            "Warnings are not judged.",
            "DESIGN.md §4 C10"),
    "C12": ("model_checking",
            "explicit-state breadth-first enumeration of the implementation's complete reachable state graph in the simulator "
            "(generated inputs at every state) + Hypothesis-generated strobe walks, both judged by a deque monitor",
            "For small depths/widths the COMPLETE reachable state graph of the real SyncFIFO / SyncFIFOBuffered (every signal and "
            "memory row of the elaborated design, saved/restored in the simulator) is explored with every input combination "
            "at every state, and a bounded-queue monitor (deque + age counter) checks order, no loss/duplication, r_rdy/r_data, "
            "w_rdy safety and liveness, all three level outputs, and the two-cycle readability bound on every transition. "
            "Larger depths/widths are covered by generated strobe walks with bursts. Exhaustive where the space is finite "
            "and small, sampled beyond; right for a refinement property whose bugs are pointer/level corner cases at "
            "wrap-around, full and empty, which the small graphs contain in full.",
            "Monitor in vchecks/c12.py. Snapshots use the simulator's engine._state.slots (checked at run time). No reset "
            "during exploration.",
            "DESIGN.md §4 C12"),
    "C13": ("model_checking",
            "explicit-state enumeration of the reachable state graph under {write edge, read edge, both} x inputs + "
            "Hypothesis-generated clock-interleaving walks with drain phase + exhaustive depth sweep for elaboration",
            "The harness owns both clocks, so every interleaving (incl. coincident edges) is a generated event sequence. "
            "Complete reachable graphs for the smallest AsyncFIFO/AsyncFIFOBuffered configurations (state cap reported "
            "if hit), long generated walks with one-clock bursts for larger ones, each ending in a drain phase that "
            "must deliver every written entry within a bound; every depth 0..40 x exact_depth must either be refused "
            "by the constructor or elaborate, simulate and convert.",
            "Monitor in vchecks/c13.py; inputs never change in the same instant as an edge.",
            "DESIGN.md §4 C13"),
    "C16": ("exploration",
            "exhaustive sweep of the catalogue x data widths + Hypothesis-generated parameter sets, word sequences and "
            "per-cycle (start, valid, data) schedules, differential against a bit-serial Williams register model and the "
            "frozen published check values",
            "Every catalogue entry is compared with the published parameters/check value and, for 11+ data widths and "
            "seeded messages, with an independent bit-at-a-time register model; random parameter sets (incl. even "
            "polynomials, all reflection combinations, data width <,=,> crc width) extend this beyond the catalogue. The "
            "hardware Processor (a quarter of the time an object that was already elaborated once) is simulated on generated schedules with idle gaps, restarts, domain resets and start with/without valid, "
            "and match_detected is checked positively (own CRC in transmission order) and negatively (all other trailers "
            "for crc_width<=8, sampled otherwise).",
            "Oracle: vchecks/c16.py williams_* (shares no code with amaranth.lib.crc); refdata/crc_catalog.json is a frozen "
            "copy of the reveng values. Negative match clause only for polynomials with constant term 1.",
            "DESIGN.md §4 C16"),
    "C14": ("exploration",
            "Hypothesis-generated signature trees, interface tuples and single-point corruptions; oracle = effective-direction "
            "model on the descriptor tree + simulation of the connected module (set every output leaf, read every input leaf)",
            "Signature trees with nesting, array dimensions on ports and sub-interfaces, aggregate shapes and initial values "
            "are generated; flipping laws, compliance of created objects, flatten order/direction and Component metadata are "
            "compared with a direction model computed on the descriptor; connect() is exercised on 2..4 objects (flip pairs, "
            "flipped() proxies, independent signatures with exactly one output per leaf, constants, differing signedness) and "
            "judged end-to-end in simulation, under permuted argument order; each of six single-point corruptions must be "
            "refused with ConnectionError.",
            "Model in vchecks/c14.py. In-range initial values only; dimension mismatches not generated.",
            "DESIGN.md §4 C14"),
    "C17": ("exploration",
            "Hypothesis-generated clock/input/reset event schedules (harness-owned clocks, coincident edges) judged by "
            "shift-register, release-counter and pulse-count monitors",
            "FFSynchronizer is compared with a `stages`-deep shift register preloaded with the initial value over all "
            "widths/stage counts/edges/reset configurations (synchronous, asynchronous, none), outputs of the same or a wider shape and objects elaborated once or twice; AsyncFFSynchronizer and ResetSynchronizer with a monitor that "
            "demands assertion in the very event the input asserts and release after exactly `stages` active edges; "
            "PulseSynchronizer with pulse conservation (outputs == inputs after a drain, never ahead) over schedules that "
            "satisfy the stated precondition by construction, including coincident edges and a shared domain.",
            "Monitors in vchecks/c17.py; inputs change only between clock events.",
            "DESIGN.md §4 C17"),
    "C15": ("exploration",
            "Hypothesis-generated layout trees, bit patterns, initialisers and enum classes; oracle = placement rules and "
            "bit slicing computed on the descriptor, Python's enum.Flag for flag operators; round-trip and differential "
            "(data.Const arithmetic vs View slicing in simulation vs assignment statements)",
            "Layout trees (struct/union/array/flexible with gaps and overlaps, signed and enum leaves) are generated with all "
            "bit patterns for small layouts; offsets, const()/from_bits()/as_bits() round trips, read-back at every path, "
            "view reads in simulation (incl. array slices and dynamic indices) and writes through view fields by ctx.set, "
            "comb and sync statements are compared with a slice model; Struct/Union classes with defaults; shaped "
            "Enum/IntEnum/Flag/IntFlag round trips and FlagView operators against Python's enum.Flag.",
            "Model in vchecks/c15.py. View reads and combinational writes (field-then-whole and whole-then-field orders) are "
            "repeated on the emitted RTLIL through vlib/rtlil_eval.py (synthesis leg).",
            "DESIGN.md §4 C15"),
    "C18": ("exploration",
            "Hypothesis-generated port expressions (slice / + / ~ over base ports with arbitrary inversion tuples and "
            "directions), buffer directions and stimulus; oracle = per-bit map model; judged in simulation "
            "(SimulationPort, FFBuffer with harness-owned clocks) and on the netlist (real I/O ports)",
            "The port algebra of all three port classes is compared bit for bit (length, direction, inversion tuple, "
            "refusals) with a bit-map model; Buffer and FFBuffer on simulation ports are simulated on generated "
            "o/oe/pad/clock events and every pad and fabric bit is compared after every event; for real ports the "
            "netlist must contain exactly one I/O buffer cell per used pad bit, overlapping buffers (two buffers, or one port expression naming a bit twice) must be refused, and "
            "the cells' nets are evaluated to confirm that inversion is applied on the fabric side.",
            "Model in vchecks/c18.py. The small netlist evaluator supports top/^/~/&/|/iob cells only (else exit 2).",
            "DESIGN.md §4 C18"),
    "C20": ("exploration",
            "Hypothesis-generated format specifications, shapes, values and Print/Assert placements inside generated "
            "control-flow programs; oracle = CPython's str.format on the exact integer and the reference statement "
            "interpreter for activity per clock edge",
            "Format specs are drawn from the accepted grammar (all option combinations, fills incl. non-ASCII, every type) "
            "and applied to signed/unsigned values of width 0..24, code points and UTF-8 strings; the text printed by the "
            "simulation and carried by AssertionError must equal Python's own formatting; specs from the rejected grammar "
            "must raise at construction. Print/Assert/Assume statements inserted into generated If/Switch/FSM programs are "
            "compared edge by edge with the reference interpreter: output exactly at active edges where the statement is "
            "active, nothing at input/reset/inactive-edge events, stop exactly at the first failing assertion.",
            "Oracle: CPython formatting + vlib/refsem.py Interp hooks. Embedded NUL bytes in 's' values and output at the "
            "very edge where an assertion fires are not judged.",
            "DESIGN.md §4 C20"),
    "C19": ("exploration",
            "Hypothesis-generated platform descriptions and request histories, model-based (pin->owner dict) decision "
            "oracle; rendered constraint files of three open-toolchain platforms parsed and compared with the description",
            "Resource/connector tables with overlapping pins, subsignals, differential pairs, chained connectors, attrs "
            "and clocks are generated together with request histories (repeats, unknown resources, legal/illegal "
            "overrides); every call's accept/refuse decision and every granted port (pins in order through the connector "
            "chain, inversion, direction, group structure) is compared with a model whose allocation changes only on "
            "success. For IceStorm/Trellis/Apicula the build plan is rendered offline and the .pcf/.lpf/.cst parsed: each "
            "buffered port bit must be located at exactly its declared pin once, and each clock constrained to its "
            "declared period once.",
            "Model and constraint-file readers in vchecks/c19.py. Only templates that render without vendor tools are covered.",
            "DESIGN.md §4 C19"),
    "C06": ("exploration",
            "Hypothesis-generated driver placements (legal / one-step near-miss pairs) and combinational dependency designs; "
            "oracle = per-bit owner table and two own bit-level dependency graphs (precise: must reject, coarse: must accept) "
            "with an own DFS",
            "Both directions of the if-and-only-if are exercised: every generated legal placement is converted next to a "
            "single-step mutation of it (grown range, moved module/domain, overlapped instance or buffer output) and the "
            "accept/DriverConflict decision compared with a bit-owner table; combinational designs mixing bit-precise and "
            "word-level constructs, conditions and two modules are judged against a precise dependency graph (a cycle "
            "there must be reported as CombinationalCycle) and a coarse one (no cycle there must be accepted), which makes "
            "the oracle sound where the documentation leaves the granularity open.",
            "Graphs and DFS in vchecks/c06.py. Unsigned signals only in cycle designs.",
            "DESIGN.md §4 C06"),
    "C08": ("exploration",
            "metamorphic testing over injected scheduler permutations (generated designs, clocks, user processes and testbench "
            "scripts executed under K orders of the simulator's process/pending/trigger sets) + integer-femtosecond timeline "
            "model + reference-interpreter differential for settle/sample semantics + circuit/process replacement",
            "The order in which ready processes run is normally an accident of the allocator; the harness replaces the "
            "simulator's sets by an ordered subclass and replays each generated simulation under insertion, reversed, "
            "rotating and per-iteration shuffled orders, demanding identical observation logs and final state. Exact wake-up "
            "times (phases, half-periods, delays), pre-edge sampling across coincident domains, ctx.get-after-ctx.set "
            "settling, testbench add-order, hand-off between testbenches (an observer wakes in the instant another testbench "
            "writes, for every add order) and the guide's process replacements are checked against models.",
            "vlib/simorder.py rebinding of `set` (checked at run time); timeline model and scripts in vchecks/c08.py; "
            "delays never expire on a toggle instant.",
            "DESIGN.md §4 C08"),
    "C11": ("exploration",
            "Hypothesis-generated memory configurations and port/clock/row-access event sequences, differential against an "
            "array-of-rows model with per-bit unspecified masks",
            "All row shapes (incl. Struct classes whose defaults fill unlisted rows), depths (0, 1, non-powers of two), port sets, "
            "transparency sets and granularities are generated "
            "with collision-biased addresses; every read port and every row is compared with the model after every event, "
            "including coincident edges of two domains and direct row access from the testbench.",
            "Model in vchecks/c11.py; reset-less domains; simulator process order pinned (vlib/simorder.py). A second part "
            "converts each generated memory (next to a decoy memory in the same module) to RTLIL and runs it in "
            "vlib/rtlil_eval.py against the simulator wherever the RTLIL is defined.",
            "DESIGN.md §4 C11"),
    "C03": ("exploration",
            "Hypothesis-generated module trees with stacked ResetInserter/EnableInserter/DomainRenamer wrappers, memories, "
            "split signals and harness-owned multi-clock schedules; differential against the reference interpreter plus a "
            "wrapper/domain model",
            "Each generated design has up to five modules, each with its own generated program in two locally named "
            "domains, FSMs, reset-less registers, a signal split between domains, ClockSignal/ResetSignal observers and "
            "optionally a memory; wrappers are stacked and nested arbitrarily, and a module may define a clock domain of its "
            "own that shadows the inherited one for itself and its descendants. The schedule toggles arbitrary subsets of "
            "the clocks in one instant (pos/neg edge, sync/async/no reset) and changes resets, controls and inputs in "
            "between. Every register, FSM state, split chunk, memory row, read port and observer is compared after every "
            "event with a model that applies wrappers from the innermost outwards and the domain's own reset last.",
            "vlib/refsem.py Interp + wrapper model in vchecks/c03.py. Read-port output after the domain's own reset is not judged.",
            "DESIGN.md §4 C03"),
    "C09": ("exploration",
            "metamorphic testing: Hypothesis-generated designs converted in child interpreters under different PYTHONHASHSEED "
            "values and repeatedly in one interpreter (hash of the RTLIL bytes); generated simulations compared across "
            "run / reset / partial-run+reset / fresh simulator; generated build plans compared across platforms, hash seeds, "
            "archive() calls and extract()",
            "The oracle is equality of outputs that must not depend on an uncontrolled factor. Designs are biased to what "
            "makes ordering matter (several implicitly created domains whose names hash in different orders, name clashes, "
            "anonymous submodules, attribute-carrying aliases, instances with late-bound clock signals, memories, components "
            "that keep an Instance, a low-level memory or a ClockDomain object between elaborations); the same "
            "descriptor is built and converted in separate interpreters with 4 (quick) / 12 (thorough) hash seeds and three "
            "times in each. Simulation histories reuse C08's generator; plans reuse C19's.",
            "vlib/d09.py runs in the child interpreters; children import the working tree under test. One listed known finding "
            "(known_findings.json: renamer-renames-kept-clock-domain) is printed as KNOWN-FINDING and does not fail the check.",
            "DESIGN.md §4 C09"),
    "C04": ("translation_validation",
            "differential testing of Hypothesis-generated hierarchical designs: emitted RTLIL parsed and executed by an "
            "independent reader/evaluator, in lock step with amaranth's simulator under generated event lists",
            "For every generated design (module trees with generated programs over the whole expression/statement "
            "grammar, several clock domains, async resets, wrappers, memories, signals split between domains, "
            "combinational links crossing module boundaries in all directions, random port sets) the RTLIL text is read "
            "by a reader written from the format description and executed by an evaluator written from the published "
            "cell semantics; after every event every output and every named signal of every module must agree with the "
            "simulator (undefined RTLIL bits masked and counted; nothing but an unread memory read port may be undefined at "
            "power-on). Further parts push C01's deep expression grammar through a submodule boundary, a register and a "
            "narrower signal of the other signedness, and run the standard library's FIFOs, CRC and CDC blocks. This "
            "validates each translation instance rather than the translator, which is the strongest thing a "
            "generated-input technique can give for a compiler back end.",
            "Trusted base: vlib/rtlil_read.py, vlib/rtlil_eval.py (Yosys cell library semantics). $print/$check not executed.",
            "DESIGN.md §3, §4 C04"),
    "C07": ("exploration",
            "Hypothesis-generated hierarchies built to stress naming and port inference + C04's design trees + components "
            "converted through their signatures; every emitted "
            "document parsed by an independent RTLIL reader and judged by a structural validity predicate; foreign "
            "instances compared with the descriptor",
            "Well-formedness is a universal statement about every output; the check generates the situations that make it "
            "hard (name clashes between signals, ports and submodules, private names, zero-width and unused ports, empty and "
            "nested-empty modules among non-empty siblings, values routed across branches, memories, auto-added and "
            "same-named I/O ports, aggregate-shaped signals sharing names, instances with extreme parameter values and awkward "
            "strings, wiring.Component objects with arrayed and nested members converted without a port list) and runs a validity "
            "predicate over the parsed text: references, unique names, widths, slice bounds, dense port indices, exactly "
            "one driver per non-pad bit, submodule port agreement, instantiation of every module, write-port numbering and "
            "mask widths per memory, exact instance contents.",
            "vlib/rtlil_read.py (grammar) and vlib/rtlil_check.py (predicate) are the trusted base; names without whitespace.",
            "DESIGN.md §3, §4 C07"),
}

TITLES = {}
with open(os.path.join(HERE, "properties.jsonl")) as f:
    for line in f:
        p = json.loads(line)
        TITLES[p["id"]] = p["title"]

NOT_YET = "check not built (see DESIGN.md §4); nothing is claimed for it"

manifest = {
    "version": 1,
    "setup_cmd": "/venv/bin/python -c 'import hypothesis' 2>/dev/null || "
                 "/venv/bin/pip install --no-index --find-links /opt/veriftools/wheels hypothesis",
    "hooks": {
        "guard": "AMARANTH_VERIF",
        "enable": "No hooks are compiled in: amaranth is pure Python and checks import /repo's working tree "
                  "directly (PYTHONPATH=/repo). ./check exports AMARANTH_VERIF=1 but no source line reads it.",
        "baseline_off_cmd": "python3 tools/baseline.py",
        "source_commits": [],
        "add_only": True,
    },
    "engines": [
        {"name": "check", "path": "check", "serves_properties": sorted(CHECKS),
         "kind_free_text": "Hypothesis 6.168 property tests / stateful machines and exhaustive enumeration "
                           "over 4 (quick) or 16 (thorough) processes, driven by vlib/runner.py"},
    ],
    "checks": [],
    "not_applicable": [],
    "notes": "Replay: ./check <PID> --replay <file>. Known and fixed genuine defects: known_findings.json. "
             "Exit 2 = harness error/inconclusive (never a VIOLATION).",
}
for pid in sorted(TITLES):
    if pid in CHECKS:
        cat, tech, text, note, ref = CHECKS[pid]
        manifest["checks"].append({
            "property_id": pid,
            "quick_cmd": f"./check {pid} quick",
            "thorough_cmd": f"./check {pid} thorough",
            "evidence_file": f"evidence/{pid}.json",
            "replay_cmd_template": f"./check {pid} --replay {{path}}",
            "engine": "check",
            "level_claimed": {"category": cat, "text": text, "design_ref": ref},
            "level_note": note,
            "technique": tech,
        })
    else:
        manifest["not_applicable"].append({"property_id": pid, "reason": NOT_YET})

with open(os.path.join(HERE, "MANIFEST.json"), "w") as f:
    json.dump(manifest, f, indent=1)
try:
    import jsonschema
    jsonschema.validate(manifest, json.load(open("/root/.vp/MANIFEST.schema.json")))
    print("MANIFEST.json valid;", len(manifest["checks"]), "checks,", len(manifest["not_applicable"]), "not yet claimed")
except ImportError:
    print("MANIFEST.json written (jsonschema not importable here; not validated)")
