#!/bin/sh
# usage: tools/mutant.sh <name> <sed-script> <file-relative-to-repo> -- <check args...>
# Applies a one-line sed mutation to a scratch copy of /repo (under /tmp), runs the check against
# the copy (VERIF_REPO), prints the verdict, and removes the copy.
name="$1"; script="$2"; file="$3"; shift 4
D=$(mktemp -d /tmp/mut.XXXXXX)
cp -r /repo/amaranth "$D/amaranth"
sed -i "$script" "$D/$file"
if diff -q /repo/"$file" "$D/$file" >/dev/null; then echo "MUTANT $name: sed did not change anything"; rm -rf "$D"; exit 2; fi
VERIF_REPO="$D" VERIF_NO_EVIDENCE=1 "$(dirname "$0")/../check" "$@" > "$D/out" 2>&1; rc=$?
echo "MUTANT $name: rc=$rc $(grep -c '^VIOLATION' "$D/out") violation line(s); $(grep -m1 'kind=' "$D/out" | cut -c1-220)"
[ $rc -eq 2 ] && tail -5 "$D/out"
rm -rf "$D"
