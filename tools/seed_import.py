#!/usr/bin/env python3
"""usage: seed_import.py <agent out dir>/<mK> <PID> <status> [detected-by text]
Copies patch.diff + demo.py (+ notes.md) of a confirmed seeded change into /verif/seeded/<PID>-<mK>/ and writes meta.json."""
import sys, os, json, shutil
src, pid, status = sys.argv[1:4]
det = sys.argv[4] if len(sys.argv) > 4 else ""
name = f"{pid}-{os.path.basename(src.rstrip('/'))}"
dst = os.path.join(os.path.dirname(os.path.dirname(os.path.abspath(__file__))), "seeded", name)
os.makedirs(dst, exist_ok=True)
for f in ("patch.diff", "demo.py", "notes.md"):
    if os.path.exists(os.path.join(src, f)):
        shutil.copy(os.path.join(src, f), os.path.join(dst, f))
notes = open(os.path.join(src, "notes.md")).read() if os.path.exists(os.path.join(src, "notes.md")) else ""
meta = {
    "property": pid,
    "origin": "written by an independent sub-agent that saw only the property text and a scratch worktree of /repo",
    "needs_to_manifest": notes,
    "confirmed": {
        "how": f"tools/seedcheck.sh {src} {pid} quick  (scratch copy of /repo HEAD under /tmp, removed afterwards)",
        "demo_on_clean_tree": "exit 0 (PASS)",
        "demo_with_patch": "exit 1 (FAIL)",
        "repo_suite_with_patch": "1002 stable tests pass, 0 regressions (tools/baseline.py)",
    },
    "check_result": status,
    "detected_by": det,
}
json.dump(meta, open(os.path.join(dst, "meta.json"), "w"), indent=1)
print("imported", dst)
