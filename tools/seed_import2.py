#!/usr/bin/env python3
"""usage: seed_import2.py <agent out dir>/<mK> <PID> <name> <result text>   (round-2 seeds)"""
import sys, os, json, shutil
src, pid, name, txt = sys.argv[1:5]
ROUND3 = "-r3" in name or "-r4" in name
ROUND4 = "-r4" in name
dst = os.path.join(os.path.dirname(os.path.dirname(os.path.abspath(__file__))), "seeded", name)
os.makedirs(dst, exist_ok=True)
for f in ("patch.diff", "demo.py", "notes.md"):
    if os.path.exists(os.path.join(src, f)):
        shutil.copy(os.path.join(src, f), os.path.join(dst, f))
notes = open(os.path.join(src, "notes.md")).read() if os.path.exists(os.path.join(src, "notes.md")) else ""
meta = {"property": pid,
        "origin": ("round 3: written by an independent sub-agent that saw only the property text, the list of code regions used in "
                   "rounds 1-2 and a scratch worktree of /repo (asked for a different kind of slip: another route to the same "
                   "functionality, rare legal parameters, state surviving between uses, ordering, the other execution path)")
                  if ROUND3 and not ROUND4 else
                  ("round 4: written by an independent sub-agent that saw only the property text, the list of code regions and kinds "
                   "of slip used in rounds 1-3 and a scratch worktree of /repo (asked for error paths, loop boundaries, Python "
                   "semantics, shared helpers, fast paths for special values)") if ROUND4 else "round 2: written by an independent sub-agent that saw only the property text and a scratch worktree of /repo "
                  "(asked for breakages that need two features combined, two cooperating sites or a multi-step history)",
        "needs_to_manifest": notes,
        "confirmed": {"how": f"tools/seedcheck.sh {src} {pid} quick  (scratch copy of /repo HEAD under /tmp, removed afterwards)",
                      "demo_on_clean_tree": "exit 0 (PASS)", "demo_with_patch": "exit 1 (FAIL)",
                      "repo_suite_with_patch": "1002 stable tests pass, 0 regressions (tools/baseline.py)"},
        "check_result": txt, "detected_by": ""}
json.dump(meta, open(os.path.join(dst, "meta.json"), "w"), indent=1)
print("imported", dst)
