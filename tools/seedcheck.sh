#!/bin/sh
# usage: tools/seedcheck.sh <dir with patch.diff + demo.py> <PID> [tier] [extra check args...]
# Confirms a seeded change in a scratch copy of /repo (git worktree-free: a plain copy of the tracked
# tree under /tmp, removed afterwards): (1) demo passes on /repo and fails on the copy, (2) the
# repository's stable test-suite still passes on the copy (skipped with SEED_NO_SUITE=1), (3) runs the
# check for <PID> against the copy and prints the verdict.
src="$1"; pid="$2"; tier="${3:-quick}"; shift 3 2>/dev/null
HERE="$(cd "$(dirname "$0")/.." && pwd)"
D=$(mktemp -d /tmp/seedchk.XXXXXX)
git -C /repo archive HEAD | tar -x -C "$D"
if ! (cd "$D" && git apply --unsafe-paths "$src/patch.diff" 2>"$D/.applyerr" || patch -s -p1 -d "$D" < "$src/patch.diff" >"$D/.applyerr" 2>&1); then
  echo "SEED $src: patch does not apply: $(head -3 "$D/.applyerr")"; rm -rf "$D"; exit 2; fi
PYTHONPATH=/repo /venv/bin/python "$src/demo.py" >"$D/.demo_clean" 2>&1; c=$?
PYTHONPATH="$D" /venv/bin/python "$src/demo.py" >"$D/.demo_mut" 2>&1; m=$?
suite="skipped"
if [ -z "$SEED_NO_SUITE" ]; then
  suite=$(VERIF_REPO="$D" python3 "$HERE/tools/baseline.py" 2>&1 | head -1)
fi
VERIF_REPO="$D" VERIF_NO_EVIDENCE=1 "$HERE/check" "$pid" "$tier" "$@" > "$D/.out" 2>&1; rc=$?
echo "SEED $src pid=$pid tier=$tier: demo clean=$c mutated=$m | suite: $suite | check rc=$rc $(grep -c '^VIOLATION' "$D/.out") violation(s); $(grep -m1 'kind=' "$D/.out" | cut -c1-260)"
[ $rc -eq 2 ] && tail -5 "$D/.out"
rm -rf "$D"
