#!/usr/bin/env python3
import json, sys, glob, jsonschema
schema = json.load(open("/root/.vp/EVIDENCE.schema.json"))
rc = 0
for p in sorted(glob.glob("evidence/*.json")):
    try:
        jsonschema.validate(json.load(open(p)), schema); print("ok ", p)
    except Exception as e:
        print("BAD", p, str(e)[:300]); rc = 1
sys.exit(rc)
