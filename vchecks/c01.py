"""C01 — Operators compute exact integer results in shapes that never overflow."""
import itertools, warnings
from hypothesis import strategies as st

from amaranth.hdl import Module, Signal, Value

from vlib.runner import Part, Mismatch, HarnessError
from vlib import refsem as R, build as B, gen_expr as G
from vlib.simdrv import run_tb

PID = "C01"
LEVEL = "exploration"
RULE = ("(a) sweep: for every ordered pair of operand shapes with widths 0..Wmax (signed and unsigned) one "
        "design computes every documented operator on them; ALL operand values are applied (exhaustive per "
        "pair; Wmax=3 quick, 4 thorough); each operator result is observed directly (target widened by 2 "
        "bits) and through a variable part-select reaching above its MSB. (b) compose: Hypothesis typed "
        "grammar, depth<=3 (quick) / 5 (thorough), inputs exhaustive when <=10 input bits else corner grid. "
        "Oracle: exact Python-integer reference (vlib/refsem.py) for value and shape, plus the oracle's own "
        "range check. Non-trivial: sweep batches with both operands of width>=1; compositions of depth>=2 "
        "that contain a signed operand or a width-changing operator. Distinct by canonical-JSON hash of "
        "the descriptor (compose) / by construction (sweep: one evaluation per (design output, input vector)).")
ASSUMPTIONS = [
    "Constant-offset bit_select/word_select reaching beyond the operand are not generated (guide and docstring disagree).",
    "word_select(variable offset, width=0) is not generated: tests/test_hdl_ast.py pins it as a TypeError.",
    "Arrays have exactly 2**len(index) elements (all index values in range, all elements reachable); out-of-range array indices, signed shift amounts / offsets, reversed slices are not generated (documented as errors or unspecified).",
    "Intermediate widths are capped at 64 bits by slicing (cost bound of the harness, not of amaranth).",
]
QUICK_SHARDS = 4
THOROUGH_SHARDS = 16


# ------------------------------------------------------------------------------------------
def check_design(ctx, env, exprs, vectors, label):
    """Builds one design computing every expression, applies every vector, compares with refsem.
    Returns number of (expression, vector) evaluations."""
    sigs = B.make_inputs(env)
    m = Module()
    outs = []
    for k, e in enumerate(exprs):
        rw, rs = R.shape_of(e, env)
        v = Value.cast(B.expr(e, sigs))
        got = (v.shape().width, v.shape().signed)
        if got != (rw, rs):
            raise Mismatch("shape", env=env, expr=e, expected=[rw, rs], actual=list(got))
        o = Signal(B.mkshape(rw + 2, rs), name=f"o{k}")
        m.d.comb += o.eq(v)
        outs.append(o)
    n = 0
    bad = []

    async def tb(sim):
        nonlocal n
        for vec in vectors:
            for s, x in zip(sigs, vec):
                sim.set(s, x)
            for k, e in enumerate(exprs):
                exp = R.evaluate(e, env, vec)
                got = sim.get(outs[k])
                n += 1
                if got != exp:
                    bad.append((e, vec, exp, got))
                    return
    run_tb(m, tb)
    if bad:
        e, vec, exp, got = bad[0]
        raise Mismatch("value", env=env, expr=e, inputs=vec, expected=exp, actual=got, where=label)
    return n


def all_values(w, s):
    if w == 0:
        return [0]
    return list(range(-(1 << (w - 1)), 1 << (w - 1))) if s else list(range(1 << w))


def shape_list(maxw):
    return [[w, s] for w in range(0, maxw + 1) for s in (False, True) if not (s and w == 0)]


A, Bx, OFF = ["sig", 0], ["sig", 1], ["sig", 2]


def unary_exprs(wa, sa):
    ex = []
    for op in G.UNARY:
        if op == "as_s" and wa == 0:
            continue
        ex.append(["u", op, A])
    for n in range(-3, wa + 3):
        ex += [["shl", A, n], ["shr", A, n]]
    for n in range(-wa - 2, wa + 3):
        ex += [["rol", A, n], ["ror", A, n]]
    for i in range(-wa, wa):
        ex.append(["idx", A, i])
    bounds = [None] + list(range(-wa - 1, wa + 2))
    for i, j in itertools.product(bounds, bounds):
        a, b, _ = slice(i, j).indices(wa)
        if a <= b:
            ex.append(["slice", A, i, j])
    for step in (2, 3, -1, -2):
        for i, j in itertools.product([None, 0, 1, -1, wa], [None, 0, -1, wa, wa + 1]):
            ex.append(["sslice", A, i, j, step])
    for n in range(0, 4):
        ex.append(["rep", A, n])
    ex.append(["cat", []])
    ex.append(["cat", [A]])
    ex.append(["cat", [A, A]])
    # match: every single don't-care pattern of the right width, all representable ints, some not
    if wa <= 3:
        for pat in itertools.product("01-", repeat=wa):
            ex.append(["match", A, ["".join(pat)]])
    lo = -(1 << wa) - 1
    for p in range(lo, (1 << wa) + 2):
        ex.append(["match", A, [p]])
    ex.append(["match", A, []])
    if wa >= 1:
        ex.append(["match", A, ["1" + "-" * (wa - 1), 0]])
        ex.append(["match", A, [("0 " if wa > 1 else "0") + "-" * (wa - 1), -1, 1]])
    return ex


def binary_exprs(wa, sa, wb, sb):
    ex = []
    for op in G.ARITH + G.CMP + G.BITW:
        ex.append(["b", op, A, Bx])
    if not sb:
        ex += [["b", "<<", A, Bx], ["b", ">>", A, Bx]]
        for w in range(0, 5):
            ex.append(["bsel", A, Bx, w])
            if w:
                ex.append(["wsel", A, Bx, w])
        if wb <= 2:
            n = 1 << wb
            elems = [A, ["u", "~", A], ["const", -1, 2, True], ["const", 5, 3, False], ["u", "neg", A]][: max(n, 1)]
            while len(elems) < n:
                elems.append(A)
            ex.append(["arr", elems, Bx])
    ex.append(["mux", A, Bx, ["u", "~", Bx]])
    ex.append(["mux", Bx, A, ["const", -3, 3, True]])
    ex.append(["mux", A, A, Bx])
    ex.append(["cat", [A, Bx]])
    ex.append(["cat", [Bx, ["const", 0, 0, False], A]])
    # operands given as bare integers on either side
    for k in (-2, 0, 3):
        ex += [["b", "+", ["int", k], A], ["b", "-", ["int", k], A], ["b", "*", A, ["int", k]],
               ["b", "//", ["int", k], A], ["b", "%", ["int", k], A], ["b", "//", A, ["int", k]],
               ["b", "%", A, ["int", k]], ["b", "<", ["int", k], A], ["b", "&", ["int", k], A],
               ["b", "|", A, ["int", k]], ["b", "^", ["int", k], A]]
    return ex


def probe_exprs(wa, sa, wb, sb):
    """Operator results consumed by a variable part-select that can reach above their MSB."""
    inner = [["u", op, A] for op in G.UNARY if not (op == "as_s" and wa == 0)]
    inner += [["b", op, A, Bx] for op in G.ARITH + G.BITW + G.CMP[:2]]
    if not sb:
        inner += [["b", "<<", A, Bx], ["b", ">>", A, Bx]]
    inner += [["mux", A, Bx, A], ["cat", [A, Bx]], ["shl", A, 1], ["shr", A, 1], ["rol", A, 1], A]
    ex = []
    for e in inner:
        ex.append(["bsel", e, OFF, 4])
        ex.append(["wsel", e, OFF, 2])
        ex.append(["bsel", ["u", "as_u", e], OFF, 3])
    return ex


def sweep_cases(ctx):
    maxw = 3 if ctx.tier == "quick" else 4
    sh = shape_list(maxw)
    cases = [["unary", a] for a in sh]
    cases += [["binary", a, b] for a in sh for b in sh]
    cases += [["probe", a, b] for a in sh for b in sh if a[0] <= 3 and b[0] <= 3]
    for i, c in enumerate(cases):
        if i % ctx.nshards == ctx.shard:
            yield c


def sweep_body(ctx, case):
    kind = case[0]
    if kind == "unary":
        (wa, sa), = case[1:]
        env = [[wa, sa]]
        exprs = unary_exprs(wa, sa)
        vectors = [[a] for a in all_values(wa, sa)]
    elif kind == "binary":
        (wa, sa), (wb, sb) = case[1:]
        env = [[wa, sa], [wb, sb]]
        exprs = binary_exprs(wa, sa, wb, sb)
        vectors = [[a, b] for a in all_values(wa, sa) for b in all_values(wb, sb)]
    else:
        (wa, sa), (wb, sb) = case[1:]
        env = [[wa, sa], [wb, sb], [3, False]]
        exprs = probe_exprs(wa, sa, wb, sb)
        vectors = [[a, b, o] for a in all_values(wa, sa) for b in all_values(wb, sb) for o in range(8)]
    n = check_design(ctx, env, exprs, vectors, kind)
    nontrivial = all(w >= 1 for w, _ in env)
    ops = set()
    for e in exprs:
        ops |= R.ops_in(e)
    for o in ops:
        ctx.counters["op:" + o] += 1
    ctx.note_bulk(n, n if nontrivial else 0, {"kind": kind, "env": env, "n_exprs": len(exprs),
                                             "n_vectors": len(vectors), "first_exprs": exprs[:3]},
                  f"sweep:{kind}", "sweep:zero-width" if not nontrivial else "sweep:nonzero",
                  "sweep:mixed-sign" if len({s for _, s in env[:2]}) == 2 else "sweep:same-sign")


# ------------------------------------------------------------------------------------------
WIDTH_CHANGING = {"b:+", "b:-", "b:*", "b://", "b:<<", "u:neg", "shl", "shr", "cat", "rep", "bsel", "wsel", "slice"}


def compose_body(ctx, case):
    env, e = case["env"], case["expr"]
    vectors, exhaustive = G.input_vectors(env)
    if len(vectors) > 96:
        step = len(vectors) / 96.0
        vectors = [vectors[int(i * step)] for i in range(96)]
        exhaustive = False
    check_design(ctx, env, [e], vectors, "compose")
    d = R.depth(e)
    ops = R.ops_in(e)
    has_signed = any(s for _, s in env) or any(o in ops for o in ("u:neg", "u:as_s", "b:-"))
    nontrivial = d >= 2 and (has_signed or bool(ops & WIDTH_CHANGING))
    keys = [f"compose:depth{min(d, 5)}", "compose:exhaustive-inputs" if exhaustive else "compose:corner-inputs"]
    keys += ["op:" + o for o in ops]
    if any(w == 0 for w, _ in env):
        keys.append("compose:zero-width-input")
    ctx.note(case, nontrivial, *keys, evals=len(vectors))


def parts(tier):
    q = tier == "quick"
    return [
        Part("sweep", "enum", cases=sweep_cases, body=sweep_body, exhaustive=True),
        Part("compose", "hyp", strategy=G.expr_case(depth=3 if q else 5, maxw=6 if q else 10),
             body=compose_body, n=800 if q else 5000),
    ]


ALL_OPS = (["u:" + o for o in G.UNARY] + ["b:" + o for o in G.BINARY] +
           ["shl", "shr", "rol", "ror", "idx", "slice", "sslice", "cat", "rep", "bsel", "wsel", "mux", "arr",
            "match", "sig", "const", "int"])
REQUIRED = ["op:" + o for o in ALL_OPS] + ["sweep:zero-width", "sweep:mixed-sign", "compose:depth3",
                                           "compose:zero-width-input", "sweep:probe"]


def coverage_extra(tier, counters, extra):
    return {"exhaustive": True,
            "exhaustive_subspaces": [f"all operand values for every ordered pair of shapes of width 0..{3 if tier == 'quick' else 4}, "
                                     "every operator, direct and through a variable part-select"]}
