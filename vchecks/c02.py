"""C02 — Assignments and control flow: last active assignment wins, per bit."""
from hypothesis import strategies as st

from vlib.runner import Part, Mismatch
from vlib import refsem as R
from vlib.gen_prog import programs, stimulus
from vlib.progcheck import run_case

PID = "C02"
LEVEL = "exploration"
RULE = ("Hypothesis generates one-module programs (Module DSL): assignments whose target is any nesting of "
        "signal/slice/Cat/bit_select/word_select/array proxy/sign reinterpretation/rotation, If/Elif/Else, "
        "Switch/Case (ints, multi-pattern, don't-care strings with whitespace, unrepresentable patterns, Case() "
        "without patterns, Default, cases after Default) and FSM/State/next/ongoing, nested to depth 3 (quick) / 4 "
        "(thorough), over comb and sync targets of width 0..8 (signed/unsigned, non-zero inits, reset-less), "
        "plus an event list (input changes, clock ticks, reset changes). After every event every target and every "
        "ongoing() is compared with the reference statement interpreter (vlib/refsem.py). Non-trivial: at least "
        "one If/Switch/FSM node took two different branches during the stimulus AND some target changed value. "
        "Distinct by canonical-JSON hash of (program, events).")
ASSUMPTIONS = [
    "Designs are acyclic by construction (layered comb targets); LHS part-select offsets never read the signal being written.",
    "No bit is addressed twice by one assignment (Cat parts use disjoint signals).",
    "Clock toggles and input/reset changes are separate events.",
]
QUICK_SHARDS = 4
THOROUGH_SHARDS = 16


@st.composite
def cases(draw, depth, n_events):
    prog = draw(programs(depth=depth))
    evs = draw(stimulus(prog, n_events))
    return {"prog": prog, "events": evs}


def count_constructs(body, acc):
    for s in body:
        acc[s[0]] = acc.get(s[0], 0) + 1
        if s[0] == "if":
            for _, b in s[1]:
                count_constructs(b, acc)
            if s[2] is not None:
                acc["else"] = acc.get("else", 0) + 1
                count_constructs(s[2], acc)
        elif s[0] == "switch":
            seen_default = False
            for pats, b in s[2]:
                if pats is None:
                    acc["default"] = acc.get("default", 0) + 1
                    seen_default = True
                else:
                    if seen_default:
                        acc["case-after-default"] = acc.get("case-after-default", 0) + 1
                    if pats == []:
                        acc["case-empty"] = acc.get("case-empty", 0) + 1
                    if any(isinstance(p, str) and "-" in p for p in pats):
                        acc["case-dontcare"] = acc.get("case-dontcare", 0) + 1
                    if len(pats) > 1:
                        acc["case-multi"] = acc.get("case-multi", 0) + 1
                count_constructs(b, acc)
        elif s[0] == "fsm":
            for _, b in s[2]:
                if any(x[0] == "fsm" for x in b):
                    acc["nested-fsm"] = acc.get("nested-fsm", 0) + 1
                count_constructs(b, acc)
        elif s[0] == "assign":
            acc["lhs:" + s[1][0]] = acc.get("lhs:" + s[1][0], 0) + 1
    return acc


def body(ctx, case):
    stats = run_case(case["prog"], case["events"])
    acc = count_constructs(case["prog"]["body"], {})
    keys = ["c02:" + k for k in acc]
    nontrivial = stats["multi_branch"] >= 1 and stats["changed"]
    if stats["multi_branch"]:
        keys.append("c02:multi-branch-taken")
    if any(e[0] == "rst" and e[2] == 1 for e in case["events"]):
        keys.append("c02:reset-asserted")
    ctx.note(case, nontrivial, *keys, evals=max(stats["events"], 1))


def parts(tier):
    q = tier == "quick"
    return [Part("programs", "hyp", strategy=cases(3 if q else 4, 16 if q else 30), body=body,
                 n=400 if q else 2500)]


REQUIRED = ["c02:if", "c02:else", "c02:switch", "c02:default", "c02:case-after-default", "c02:case-empty",
            "c02:case-dontcare", "c02:case-multi", "c02:fsm", "c02:nested-fsm", "c02:next", "c02:lhs:slice", "c02:lhs:cat",
            "c02:lhs:bsel", "c02:lhs:wsel", "c02:lhs:arr", "c02:lhs:u", "c02:lhs:rol", "c02:multi-branch-taken",
            "c02:reset-asserted"]
