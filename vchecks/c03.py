"""C03 — Clock domains, resets and control inserters behave as specified."""
import warnings
from hypothesis import strategies as st

from amaranth.hdl import (signed, Module, ClockDomain, Signal, Cat, ClockSignal, ResetSignal, ResetInserter, EnableInserter,
                          DomainRenamer, Elaboratable)
from amaranth.lib.memory import Memory
from amaranth.sim import Simulator

from vlib.reuse import elaborated_before
from vlib.runner import Part, Mismatch, HarnessError
from vlib.gen_expr import INT, BOOL, PICK, value_of_shape
from vlib.gen_prog import ProgGen, build_program
from vlib import refsem as R
from vlib import simorder

PID = "C03"
LEVEL = "exploration"
RULE = ("Hypothesis generates a module tree (depth<=3, <=5 nodes); every node holds a generated control-flow program "
        "(comb + registers in two locally named clock domains, FSMs, reset-less registers, non-zero inits), a signal whose "
        "bits are split between two domains (or comb and a domain), observers of ClockSignal()/ResetSignal(), and optionally "
        "a Memory with a write port and a synchronous read port; any node may be wrapped by a stack (<=3) of "
        "ResetInserter / EnableInserter (dict and single-signal forms) and DomainRenamer (incl. swaps), controls being "
        "top-level inputs. Three top-level domains: sync (rising edge, synchronous reset), b (rising or falling edge, "
        "asynchronous reset), c (reset-less). The schedule (harness-owned clocks) toggles any subset of the clocks in one "
        "instant, changes resets, controls, inputs and memory port inputs. Oracle: the reference statement interpreter per "
        "node + a wrapper model applied from the innermost wrapper outwards (rename the domain; inserted reset: next = "
        "init unless reset-less; inserted enable: next = current; memory port enables ANDed with the enables) + the "
        "domain's own reset last (asynchronous: also at the instant reset rises) + an array model for the memory. Every "
        "register, FSM state (through ongoing()), split-signal chunk, memory row, read-port output and clock/reset "
        "observer is compared after every event. Non-trivial: >=2 domains or >=1 wrapper, the schedule contains a "
        "coincident multi-clock event or a reset assertion followed by an edge, and some register changed. Distinct by "
        "canonical hash of the case.")
ASSUMPTIONS = [
    "Clock toggles and reset/control/data changes are separate events (a value changing in the very instant of the edge that samples it is a race nobody defines).",
    "Inserter controls are one bit wide. A memory read port's output is expected to be unaffected by resets (inserted or the domain's own).",
    "Behaviour of asynchronous-reset domains is judged against the property statement (the language guide leaves it undocumented).",
]
QUICK_SHARDS = 4
THOROUGH_SHARDS = 16

TOP = {"sync": {}, "b": {"async_reset": True}, "c": {"reset_less": True}}
NCTL = 4


# ------------------------------------------------------------------------------------------ generation
def draw_wrappers(draw, local_doms):
    ws = []
    cur = list(local_doms)
    for _ in range(draw(PICK(draw, [INT(0, 0), INT(0, 1), INT(0, 3)]))):
        k = draw(INT(0, 5))
        names = sorted(set(cur))
        if k <= 1:
            doms = [d for d in names if draw(BOOL)] or [PICK(draw, names)]
            if doms == ["sync"] and draw(BOOL):
                ws.append(["Rseq", draw(INT(0, NCTL - 1))])
            else:
                ws.append(["R", {d: draw(INT(0, NCTL - 1)) for d in doms}])
        elif k <= 3:
            doms = [d for d in names if draw(BOOL)] or [PICK(draw, names)]
            if doms == ["sync"] and draw(BOOL):
                ws.append(["Eseq", draw(INT(0, NCTL - 1))])
            else:
                ws.append(["E", {d: draw(INT(0, NCTL - 1)) for d in doms}])
        else:
            mp = {}
            pat = draw(INT(0, 3))
            if pat == 0 and len(names) >= 2:
                mp = {names[0]: names[1], names[1]: names[0]}            # swap: must be applied simultaneously
            elif pat == 1 and len(names) >= 2:
                third = [x for x in ("sync", "b", "c") if x not in names[:2]] or ["c"]
                mp = {names[0]: names[1], names[1]: third[0]}             # chain: the first target is a later source
                if draw(BOOL):
                    mp = dict(reversed(list(mp.items())))
            else:
                for d in names:
                    if draw(BOOL):
                        mp[d] = PICK(draw, ["sync", "b", "c"])
                if not mp:
                    mp[names[0]] = PICK(draw, ["sync", "b", "c"])
            ws.append(["D", mp])
            cur = [mp.get(d, d) for d in cur]
    return ws, cur


def draw_node(draw, depth, local_doms, prog_depth):
    g = ProgGen(draw, depth=prog_depth, sync_domains=tuple(local_doms), n_inputs=(1, 2), n_targets=(1, 4))
    prog = g.program()
    for d in local_doms:       # make sure both local domains hold at least one register
        k = len(prog["env"])
        prog["env"].append([3, False]); prog["dom"][str(k)] = d; prog["init"][str(k)] = draw(INT(0, 7))
        prog["body"].append(["assign", ["sig", k], ["b", "+", ["sig", k], ["sig", prog["inputs"][0]]]])
    node = {"prog": prog, "local": list(local_doms),
            "split": {"init": draw(INT(0, 15)), "cut": draw(INT(1, 3)), "signed": draw(BOOL),
                      "lo": PICK(draw, list(local_doms) + ["comb"]), "hi": PICK(draw, list(local_doms))},
            "mem": None, "children": []}
    if node["split"]["lo"] == node["split"]["hi"]:
        node["split"]["lo"] = "comb"
    if draw(INT(0, 1)) == 0:
        node["mem"] = {"w": PICK(draw, local_doms), "r": PICK(draw, local_doms), "transparent": False}
        if node["mem"]["w"] == node["mem"]["r"]:
            node["mem"]["transparent"] = draw(BOOL)
        node["mem"]["decoy"] = draw(BOOL)
    ws, outer = draw_wrappers(draw, local_doms)
    node["wrappers"] = ws
    return node


@st.composite
def trees(draw, prog_depth):
    nodes = []
    def mk(depth, parent):
        local = PICK(draw, [["sync", "b"], ["sync", "b"], ["sync", "c"], ["b", "c"]])
        n = draw_node(draw, depth, local, prog_depth)
        n["parent"] = parent
        # a clock domain defined by this node itself: it shadows the inherited domain of that name for the node and
        # its descendants ("kind" = which of the three configurations the new domain has)
        n["own"] = {"name": PICK(draw, ["sync", "b", "c"]), "kind": PICK(draw, ["sync", "b", "c"])} if draw(INT(0, 3)) == 0 else None
        idx = len(nodes)
        nodes.append(n)
        if depth > 0 and len(nodes) < 5:
            for _ in range(draw(INT(0, 2))):
                if len(nodes) < 5:
                    mk(depth - 1, idx)
        return idx
    mk(2, None)
    b_edge = "neg" if draw(INT(0, 2)) == 0 else "pos"
    return {"nodes": nodes, "b_edge": b_edge}


def _ancestors(nodes, i):
    out = []
    while i is not None:
        out.append(i)
        i = nodes[i]["parent"]
    return out


def kind_of(nodes, inst):
    """Configuration ("sync": synchronous reset, "b": asynchronous reset / generated edge, "c": reset-less) of a domain
    instance: one of the three top-level ones or "own<i>" defined by node i."""
    return nodes[int(inst[3:])]["own"]["kind"] if inst.startswith("own") else inst


def instances(nodes):
    return ["sync", "b", "c"] + [f"own{i}" for i, n in enumerate(nodes) if n.get("own")]


def resolve(nodes, i, d):
    """(controls, domain instance) for local domain name d of node i: names are final after every renamer on the way
    to the root; the nearest definition (the node's own, then its ancestors', then the top level) of that name wins."""
    ctrl, final = controls_for(nodes, i, d)
    for a in _ancestors(nodes, i):
        own = nodes[a].get("own")
        if own and controls_for(nodes, a, own["name"])[1] == final:
            return ctrl, f"own{a}"
    return ctrl, final


def controls_for(nodes, i, d):
    """Effective control list (inner -> outer) and final top-level domain for local domain d of node i."""
    ctrl, cur = [], d
    n = i
    while n is not None:
        for w in nodes[n]["wrappers"]:
            if w[0] == "D":
                cur = w[1].get(cur, cur)
            elif w[0] in ("R", "E"):
                if cur in w[1]:
                    ctrl.append((w[0], w[1][cur]))
            elif w[0] == "Rseq":
                if cur == "sync": ctrl.append(("R", w[1]))
            elif w[0] == "Eseq":
                if cur == "sync": ctrl.append(("E", w[1]))
        n = nodes[n]["parent"]
    return ctrl, cur


@st.composite
def cases(draw, prog_depth, nev):
    tree = draw(trees(prog_depth))
    nodes = tree["nodes"]
    evs = []
    mode = 0
    for _ in range(nev):
        if draw(INT(0, 5)) == 0:
            mode = draw(INT(0, 2))
        k = draw(INT(0, 11))
        if k <= 3 or (mode == 1 and k <= 7):
            insts = instances(nodes)
            doms = [d for d in insts if draw(BOOL)] or [PICK(draw, insts)]
            if mode == 2: doms = list(insts)
            evs.append(["clk", doms])
        elif k <= 5:
            i = draw(INT(0, len(nodes) - 1))
            p = nodes[i]["prog"]
            evs.append(["in", i, {str(j): draw(value_of_shape(*p["env"][j])) for j in p["inputs"] if draw(INT(0, 3))}])
        elif k <= 7:
            evs.append(["ctl", draw(INT(0, NCTL - 1)), draw(INT(0, 1))])
        elif k == 8:
            evs.append(["rst", PICK(draw, [d for d in instances(nodes) if kind_of(nodes, d) != "c"]), draw(INT(0, 1))])
        elif k == 9:
            evs.append(["split", draw(INT(0, len(nodes) - 1)), draw(INT(0, 15))])
        else:
            i = draw(INT(0, len(nodes) - 1))
            if nodes[i]["mem"]:
                evs.append(["mem", i, {"waddr": draw(INT(0, 3)), "wdata": draw(INT(0, 15)), "wen": draw(INT(0, 1)),
                                       "raddr": draw(INT(0, 3)), "ren": draw(INT(0, 1))}])
    return {"tree": tree, "events": evs, "ctl_init": [draw(INT(0, 1)) for _ in range(NCTL)]}


# ------------------------------------------------------------------------------------------ building
class NodeElab(Elaboratable):
    def __init__(self, node, children, shared, b_edge="pos"):
        self.node, self.children, self.shared = node, children, shared
        prog = node["prog"]
        m = Module()
        self.own_cd = None
        if node.get("own"):
            kw = dict(TOP[node["own"]["kind"]])
            if node["own"]["kind"] == "b":
                kw["clk_edge"] = b_edge
            self.own_cd = ClockDomain(node["own"]["name"], **kw)
            m.domains += self.own_cd
        self.b = build_program(prog, module=m, make_domains=False)
        self.m = m
        sp = node["split"]
        sinit = sp["init"] - 16 if sp.get("signed") and sp["init"] >= 8 else sp["init"]
        self.split = Signal(signed(4) if sp.get("signed") else 4, init=sinit, name="split")
        self.split_in = Signal(4, name="split_in")
        m.d[sp["lo"]] += self.split[:sp["cut"]].eq(self.split_in[:sp["cut"]])
        m.d[sp["hi"]] += self.split[sp["cut"]:].eq(self.split_in[sp["cut"]:])
        self.obs_clk = {d: Signal(name=f"obs_clk_{d}") for d in node["local"]}
        self.obs_rst = {}
        for d in node["local"]:
            m.d.comb += self.obs_clk[d].eq(ClockSignal(d))
        self.mem = None
        if node["mem"]:
            if node["mem"].get("decoy"):
                # another memory in the same module, declared first, with a write port of its own and nothing else
                self.decoy = Memory(shape=3, depth=2, init=[5, 6])
                dwp = self.decoy.write_port(domain=node["mem"]["w"])
                self.decoy_rp = self.decoy.read_port(domain="comb")
                m.d.comb += [dwp.addr.eq(self.split_in[0]), dwp.data.eq(self.split_in[1:]), dwp.en.eq(0)]
                m.submodules.decoy = self.decoy
            self.mem = Memory(shape=4, depth=4, init=[1, 2, 3, 4])
            self.wp = self.mem.write_port(domain=node["mem"]["w"])
            self.rp = self.mem.read_port(domain=node["mem"]["r"], transparent_for=[self.wp] if node["mem"]["transparent"] else [])
            m.submodules.mem = self.mem
        for j, ch in enumerate(children):
            setattr(m.submodules, f"child{j}", ch)

    def add_rst_observer(self, d):
        self.obs_rst[d] = Signal(name=f"obs_rst_{d}")
        self.m.d.comb += self.obs_rst[d].eq(ResetSignal(d))

    def elaborate(self, platform):
        return self.m


def wrap(obj, wrappers, ctls):
    for w in wrappers:
        if w[0] == "R":
            obj = ResetInserter({d: ctls[c] for d, c in w[1].items()})(obj)
        elif w[0] == "Rseq":
            obj = ResetInserter(ctls[w[1]])(obj)
        elif w[0] == "E":
            obj = EnableInserter({d: ctls[c] for d, c in w[1].items()})(obj)
        elif w[0] == "Eseq":
            obj = EnableInserter(ctls[w[1]])(obj)
        else:
            obj = DomainRenamer(dict(w[1]))(obj)
    return obj


def build(case):
    tree = case["tree"]
    nodes = tree["nodes"]
    ctls = [Signal(name=f"ctl{j}", init=case["ctl_init"][j]) for j in range(NCTL)]
    elabs = [None] * len(nodes)
    wrapped = [None] * len(nodes)
    for i in reversed(range(len(nodes))):
        kids = [wrapped[j] for j in range(len(nodes)) if nodes[j]["parent"] == i]
        e = NodeElab(nodes[i], kids, None, tree["b_edge"])
        for d in nodes[i]["local"]:
            if kind_of(nodes, resolve(nodes, i, d)[1]) != "c":
                e.add_rst_observer(d)
        elabs[i] = e
        wrapped[i] = wrap(e, nodes[i]["wrappers"], ctls)
    top = Module()
    cds = {}
    for dn, kw in TOP.items():
        kw = dict(kw)
        if dn == "b":
            kw["clk_edge"] = tree["b_edge"]
        cds[dn] = ClockDomain(dn, **kw)
        top.domains += cds[dn]
    if len(nodes) % 2 == 0:
        # a group module without statements of its own that holds the design first and hollow modules after it
        grp, hollow = Module(), Module()
        hollow.submodules.nothing = Module()
        grp.submodules.root = wrapped[0]
        grp.submodules.hollow = hollow
        top.submodules.group = grp
    else:
        top.submodules.root = wrapped[0]
    for i, e in enumerate(elabs):
        if e.own_cd is not None:
            cds[f"own{i}"] = e.own_cd
    return top, cds, ctls, elabs


# ------------------------------------------------------------------------------------------ reference
class NodeRef:
    def __init__(self, nodes, i):
        self.node = nodes[i]
        prog = self.node["prog"]
        self.it = R.Interp(prog)
        self.vals, self.fstate = self.it.initial({k: 0 for k in prog["inputs"]})
        self.vals = self.it.settle(self.vals, self.fstate)
        self.ctrl = {d: resolve(nodes, i, d) for d in self.node["local"]}
        self.kind = {inst: kind_of(nodes, inst) for inst in instances(nodes)}
        sp = self.node["split"]
        self.split = sp["init"]
        self.split_in = 0
        self.mem = None
        if self.node["mem"]:
            self.mem = {"rows": [1, 2, 3, 4], "rdata": 0, "rx": False, "waddr": 0, "wdata": 0, "wen": 0, "raddr": 0, "ren": 1}

    def split_masks(self):
        sp = self.node["split"]
        lo = (1 << sp["cut"]) - 1
        return {"lo": lo, "hi": 15 & ~lo}


def apply_ctrl(ctrl, ctl, cur, nxt, init, resettable):
    for kind, c in ctrl:
        if kind == "R":
            if ctl[c] and resettable:
                nxt = init
        else:
            if not ctl[c]:
                nxt = cur
    return nxt


def ref_edge(refs, active, ctl, rst):
    """All nodes, all local domains whose final domain is in `active`, from pre-edge state."""
    changed = False
    for ref in refs:
        it, prog = ref.it, ref.node["prog"]
        new_vals = list(ref.vals)
        new_f = list(ref.fstate)
        for d in ref.node["local"]:
            ctrl, final = ref.ctrl[d]
            if final not in active:
                continue
            dom_rst = rst.get(final, 0) and ref.kind[final] != "c"
            new, ns = it.run(ref.vals, ref.fstate, d)
            for k, v in new.items():
                resettable = k not in it.rl
                v = apply_ctrl(ctrl, ctl, ref.vals[k], v, it.init[k], resettable)
                if dom_rst and resettable:
                    v = it.init[k]
                if v != ref.vals[k]:
                    changed = True
                new_vals[k] = v
            for f, fs in enumerate(it.fsms):
                if fs["dom"] == d:
                    s = apply_ctrl(ctrl, ctl, ref.fstate[f], ns[f], it.fsm_init(f), True)
                    if dom_rst:
                        s = it.fsm_init(f)
                    new_f[f] = s
            # split signal chunks
            sp = ref.node["split"]
            for part, mask in ref.split_masks().items():
                if sp[part] == d:
                    cur = ref.split & mask
                    nxt = apply_ctrl(ctrl, ctl, cur, ref.split_in & mask, sp["init"] & mask, True)
                    if dom_rst:
                        nxt = sp["init"] & mask
                    ref._split_next = (getattr(ref, "_split_next", ref.split) & ~mask) | nxt
            # memory ports
            if ref.mem:
                mm = ref.node["mem"]
                en_all = all(ctl[c] for kind, c in ctrl if kind == "E")
                if mm["r"] == d:
                    # the domain's own reset does not touch a read port's output (there is no reset on the memory cell)
                    if ref.mem["ren"] and en_all:
                        a = ref.mem["raddr"]
                        val = ref.mem["rows"][a]
                        if mm["transparent"] and mm["w"] == d and ref.mem["wen"] and en_all and ref.mem["waddr"] == a:
                            val = ref.mem["wdata"]
                        ref.mem["_rdata"] = val
                        ref.mem["_rx"] = False
                        ref.mem["_read_fired"] = True
                if mm["w"] == d:
                    if ref.mem["wen"] and en_all:
                        ref.mem["_write"] = (ref.mem["waddr"], ref.mem["wdata"])
        ref._new = (new_vals, new_f)
    # commit everything at once
    for ref in refs:
        new_vals, new_f = ref._new
        ref.vals = ref.it.settle(new_vals, new_f)
        ref.fstate = new_f
        if hasattr(ref, "_split_next"):
            ref.split = ref._split_next
            del ref._split_next
        if ref.mem:
            if "_rdata" in ref.mem:
                ref.mem["rdata"] = ref.mem.pop("_rdata")
            if "_rx" in ref.mem:
                ref.mem["rx"] = ref.mem.pop("_rx")
            if "_write" in ref.mem:
                a, v = ref.mem.pop("_write")
                mm = ref.node["mem"]
                if ref.mem.get("_read_fired") and ref.ctrl[mm["w"]][1] != ref.ctrl[mm["r"]][1] and ref.mem["raddr"] == a:
                    ref.mem["rx"] = True      # read in one domain in the instant the row is written from another: undefined
                ref.mem["rows"][a] = v
            ref.mem.pop("_read_fired", None)
    return changed


def ref_comb_split(refs):
    for ref in refs:
        sp = ref.node["split"]
        if sp["lo"] == "comb":
            m = ref.split_masks()["lo"]
            ref.split = (ref.split & ~m) | (ref.split_in & m)


def ref_async_reset(refs, dom):
    for ref in refs:
        it = ref.it
        for d in ref.node["local"]:
            ctrl, final = ref.ctrl[d]
            if final != dom:
                continue
            for k, dn in it.dom.items():
                if dn == d and k not in it.rl:
                    ref.vals[k] = it.init[k]
            for f, fs in enumerate(it.fsms):
                if fs["dom"] == d:
                    ref.fstate[f] = it.fsm_init(f)
            sp = ref.node["split"]
            for part, mask in ref.split_masks().items():
                if sp[part] == d:
                    ref.split = (ref.split & ~mask) | (sp["init"] & mask)
        ref.vals = it.settle(ref.vals, ref.fstate)


def body(ctx, case):
    tree = case["tree"]
    nodes = tree["nodes"]
    simorder.set_policy(None)
    with warnings.catch_warnings():
        warnings.simplefilter("ignore")
        top, cds, ctls, elabs = build(case)
        # (a renamer renames the ClockDomain object a wrapped module defines, so such a design is elaborated once)
        if not any(n.get("own") for n in nodes) and elaborated_before(case, top):
            ctx.tally("reuse:design-elaborated-before")
        sim = Simulator(top)
    refs = [NodeRef(nodes, i) for i in range(len(nodes))]
    ref_comb_split(refs)
    ctl = list(case["ctl_init"])
    insts = instances(nodes)
    kind = {d: kind_of(nodes, d) for d in insts}
    rst = {d: 0 for d in insts if kind[d] != "c"}
    level = {d: 0 for d in insts}
    active_pol = {d: (1 if tree["b_edge"] == "pos" else 0) if kind[d] == "b" else 1 for d in insts}
    stats = dict(coincident=False, reset_then_edge=False, changed=False, async_rise=False, enable_low_edge=False,
                 inserted_reset_edge=False, mem_checked=False)
    fail = []

    def compare(c, step, ev):
        for i, (ref, e) in enumerate(zip(refs, elabs)):
            it = ref.it
            for k in sorted(set(it.dom) | set(it.ongoing)):
                got = c.get(e.b.sigs[k])
                if got != ref.vals[k]:
                    dn = it.dom.get(k, "ongoing")
                    return Mismatch("register", step=step, event=ev, node=i, signal=k, domain=dn,
                                    final_domain=(ref.ctrl[dn][1] if dn in ref.ctrl else None),
                                    controls=(ref.ctrl[dn][0] if dn in ref.ctrl else None), expected=ref.vals[k], actual=got,
                                    wrappers=[nodes[j]["wrappers"] for j in range(len(nodes))], reset_less=k in it.rl)
            got = c.get(e.split)
            want = ref.split - 16 if ref.node["split"].get("signed") and ref.split >= 8 else ref.split
            if got != want:
                return Mismatch("split-signal", step=step, event=ev, node=i, split=ref.node["split"], expected=ref.split, actual=got,
                                controls={d: ref.ctrl[d] for d in ref.node["local"]})
            for d in ref.node["local"]:
                final = ref.ctrl[d][1]
                if c.get(e.obs_clk[d]) != level[final]:
                    return Mismatch("ClockSignal-after-renaming", node=i, local=d, final=final)
                if d in e.obs_rst and c.get(e.obs_rst[d]) != rst.get(final, 0):
                    return Mismatch("ResetSignal-after-renaming", node=i, local=d, final=final)
            if ref.mem:
                for a in range(4):
                    got = c.get(e.mem.data[a])
                    if got != ref.mem["rows"][a]:
                        return Mismatch("memory-row", step=step, event=ev, node=i, row=a, expected=ref.mem["rows"][a], actual=got,
                                        mem=ref.node["mem"], controls={d: ref.ctrl[d] for d in ref.node["local"]})
                if not ref.mem["rx"]:
                    got = c.get(e.rp.data)
                    stats["mem_checked"] = True
                    if got != ref.mem["rdata"]:
                        return Mismatch("memory-read-port", step=step, event=ev, node=i, expected=ref.mem["rdata"], actual=got,
                                        mem=ref.node["mem"], controls={d: ref.ctrl[d] for d in ref.node["local"]})
        return None

    async def tb(c):
        mm = compare(c, -1, "initial")
        if mm: fail.append(mm); return
        pending_reset = False
        for step, ev in enumerate(case["events"]):
            k = ev[0]
            if k == "clk":
                doms = sorted(set(ev[1]))
                for d in doms:
                    level[d] ^= 1
                act = {d for d in doms if level[d] == active_pol[d]}
                v = 0
                for j, d in enumerate(doms):
                    v |= level[d] << j
                c.set(Cat(*[cds[d].clk for d in doms]), v)
                if len(act) > 1: stats["coincident"] = True
                if act:
                    if any(rst.get(d) for d in act): stats["reset_then_edge"] = True
                    if not all(ctl): stats["enable_low_edge"] = True
                    if any(ctl): stats["inserted_reset_edge"] = True
                    if ref_edge(refs, act, ctl, rst): stats["changed"] = True
            elif k == "in":
                _, i, chg = ev
                for j, v in chg.items():
                    c.set(elabs[i].b.sigs[int(j)], v)
                    refs[i].vals[int(j)] = v
                refs[i].vals = refs[i].it.settle(refs[i].vals, refs[i].fstate)
            elif k == "ctl":
                c.set(ctls[ev[1]], ev[2]); ctl[ev[1]] = ev[2]
            elif k == "rst":
                d = ev[1]
                old, rst[d] = rst[d], ev[2]
                c.set(cds[d].rst, ev[2])
                if kind[d] == "b" and ev[2] and not old:
                    ref_async_reset(refs, d)
                    stats["async_rise"] = True
            elif k == "split":
                c.set(elabs[ev[1]].split_in, ev[2]); refs[ev[1]].split_in = ev[2]
                ref_comb_split(refs)
            elif k == "mem":
                _, i, d = ev
                e, ref = elabs[i], refs[i]
                c.set(e.wp.addr, d["waddr"]); c.set(e.wp.data, d["wdata"]); c.set(e.wp.en, d["wen"])
                c.set(e.rp.addr, d["raddr"]); c.set(e.rp.en, d["ren"])
                ref.mem.update(d)
            mm = compare(c, step, ev)
            if mm: fail.append(mm); return
    with warnings.catch_warnings():
        warnings.simplefilter("ignore")
        sim.add_testbench(tb)
        sim.run()
    if fail:
        raise fail[0]
    kinds = {w[0][0] for n in nodes for w in n["wrappers"]}
    keys = ["c03:" + k for k, v in stats.items() if v] + ["c03:wrapper-" + k for k in kinds]
    if any(len(n["wrappers"]) >= 2 for n in nodes): keys.append("c03:stacked-wrappers")
    if any(n["parent"] is not None and nodes[n["parent"]]["wrappers"] and n["wrappers"] for n in nodes): keys.append("c03:nested-wrappers")
    if any(n["mem"] for n in nodes): keys.append("c03:memory")
    if any(n["mem"] and any(k == "E" for k, _ in controls_for(nodes, i, n["mem"]["w"])[0]) for i, n in enumerate(nodes)):
        keys.append("c03:memory-under-enable")
    if any(w[0] in ("Rseq", "Eseq") for n in nodes for w in n["wrappers"]): keys.append("c03:single-signal-form")
    def chained(mp):
        return any(t in mp and t != s_ for s_, t in mp.items())
    if any(n["mem"] and any(w[0] == "D" and chained(w[1]) for j in _ancestors(nodes, i) for w in nodes[j]["wrappers"])
           for i, n in enumerate(nodes)):
        keys.append("c03:memory-under-swapping-or-chained-renamer")
    if tree["b_edge"] == "neg": keys.append("c03:negedge-domain")
    owners = [i for i, n in enumerate(nodes) if n.get("own")]
    if owners:
        keys.append("c03:domain-defined-in-a-submodule")
        used = {(i, refs[i].ctrl[d][1]) for i in range(len(nodes)) for d in nodes[i]["local"]}
        if any(inst == f"own{a}" and i != a for a in owners for i, inst in used): keys.append("c03:own-domain-used-by-descendant")
        if any(inst == f"own{a}" and i == a for a in owners for i, inst in used): keys.append("c03:own-domain-used-by-definer")
        # a node above a definer, or beside it, still uses the outer domain of the same final name
        for a in owners:
            fa = controls_for(nodes, a, nodes[a]["own"]["name"])[1]
            if any(inst == fa and i != a and a not in _ancestors(nodes, i) for i, inst in used):
                keys.append("c03:shadowed-name-used-outside-the-definer")
    if any(n["split"]["lo"] != "comb" for n in nodes): keys.append("c03:split-between-domains")
    nontrivial = (stats["coincident"] or stats["reset_then_edge"]) and stats["changed"]
    ctx.note(case, nontrivial, *keys, evals=len(case["events"]))


def parts(tier):
    q = tier == "quick"
    simorder.install()
    return [Part("designs", "hyp", strategy=cases(1 if q else 2, 20 if q else 50), body=body, n=120 if q else 1500)]


REQUIRED = ["c03:coincident", "c03:reset_then_edge", "c03:changed", "c03:async_rise", "c03:enable_low_edge",
            "c03:inserted_reset_edge", "c03:mem_checked", "c03:wrapper-R", "c03:wrapper-E", "c03:wrapper-D",
            "c03:stacked-wrappers", "c03:nested-wrappers", "c03:memory", "c03:memory-under-enable",
            "c03:single-signal-form", "c03:negedge-domain", "c03:split-between-domains",
            "c03:memory-under-swapping-or-chained-renamer", "c03:domain-defined-in-a-submodule",
            "c03:own-domain-used-by-descendant", "c03:own-domain-used-by-definer", "c03:shadowed-name-used-outside-the-definer"]
