"""C04 — Emitted RTLIL is behaviourally equivalent to the simulated design."""
import warnings
from hypothesis import strategies as st

from amaranth.hdl import Module, Signal, Cat, Fragment, Value
from amaranth.back import rtlil
from amaranth.sim import Simulator

from vlib.runner import Part, Mismatch, HarnessError
from vlib.gen_expr import INT, BOOL, PICK, value_of_shape
from vlib import rtlil_read as RR, rtlil_eval as RE, simorder
from vchecks import c03

PID = "C04"
LEVEL = "translation_validation"
RULE = ("Every generated design (C03's space: module trees of up to five modules with generated control-flow programs over "
        "the full expression grammar in two locally named domains each, FSMs, reset-less registers, signals split "
        "between domains, memories with sync read and write ports, stacked ResetInserter/EnableInserter/DomainRenamer "
        "wrappers, three top-level domains incl. falling-edge and asynchronous reset; plus cross-module links: every "
        "non-root module computes a combinational signal from signals driven in its parent and in another branch of the "
        "tree, so values cross module boundaries upwards, downwards and sideways) is converted with "
        "rtlil.convert_fragment; only the harness-driven inputs and a random subset of the driven signals are ports. "
        "The text is parsed by the independent reader and executed by the independent evaluator (vlib/rtlil_eval.py) in "
        "lock step with amaranth's simulator under one generated event list (coincident clock toggles, resets, "
        "controls, data, memory port inputs). After every event every top-level output and every named register / "
        "signal of every module (located through the returned name map) is compared; bits the RTLIL leaves undefined "
        "are masked and counted. expressions: C01's expression grammar (depth 3/5) computed inside a submodule from "
        "top-level inputs and observed in a widened combinational signal, through a register and through a narrower "
        "signal of the other signedness, on exhaustive or corner input vectors. library: the standard library's FIFOs (all "
        "four), CRC processor and CDC primitives with generated parameters, driven with generated input / two-clock / "
        "reset events. programs == designs converted; disagreements_checked == signal comparisons made. "
        "Non-trivial: the RTLIL has >=2 modules, or a process with a nested switch, or a memory, and the trace is "
        "not constant. Distinct by canonical hash of the case.")
ASSUMPTIONS = [
    "Trusted base: the cell, process and memory semantics listed at the top of vlib/rtlil_eval.py (published Yosys cell library).",
    "$print/$check cells are not executed. Reads beyond a memory's depth and read-port outputs before the first enabled read are undefined on the RTLIL side.",
    "Inputs change only between clock events.",
]
QUICK_SHARDS = 4
THOROUGH_SHARDS = 16


@st.composite
def cases(draw, prog_depth, nev):
    case = draw(c03.cases(prog_depth, nev))
    nodes = case["tree"]["nodes"]
    links = []
    for i in range(1, len(nodes)):
        others = [j for j in range(len(nodes)) if j != i]
        p = nodes[i]["parent"]
        o = PICK(draw, others)
        def pick(j):
            prog = nodes[j]["prog"]
            ks = [int(k) for k in prog["dom"]]
            return PICK(draw, ks)
        links.append({"node": i, "a": [p, pick(p)], "b": [o, pick(o)], "op": PICK(draw, ["^", "+", "cat"])})
    case["links"] = links
    case["port_bits"] = draw(INT(0, 2 ** 30))
    return case


def build(case):
    top, cds, ctls, elabs = c03.build(case)
    links = []
    for ln in case["links"]:
        e = elabs[ln["node"]]
        a = elabs[ln["a"][0]].b.sigs[ln["a"][1]]
        b = elabs[ln["b"][0]].b.sigs[ln["b"][1]]
        s = Signal(6, name="link")
        ex = {"^": a ^ b, "+": a + b, "cat": Cat(a, b)}[ln["op"]]
        e.m.d.comb += s.eq(ex)
        links.append(s)
    return top, cds, ctls, elabs, links


def body(ctx, case):
    nodes = case["tree"]["nodes"]
    simorder.set_policy(None)
    with warnings.catch_warnings():
        warnings.simplefilter("ignore")
        # one build for the simulator, an identical one for conversion (elaboration freezes modules)
        top, cds, ctls, elabs, links = build(case)
        sim = Simulator(top)
        top2, cds2, ctls2, elabs2, links2 = build(case)
        inputs2 = []          # (signal in build 2, how to find the same signal in build 1)
        watch = []            # (label, sim signal, conversion-side signal)
        for i, (e1, e2) in enumerate(zip(elabs, elabs2)):
            prog = nodes[i]["prog"]
            for k in prog["inputs"]:
                inputs2.append(e2.b.sigs[k])
            inputs2.append(e2.split_in)
            if e2.mem is not None:
                inputs2 += [e2.wp.addr, Value.cast(e2.wp.data), e2.wp.en, e2.rp.addr, e2.rp.en]
            for k in sorted(set(int(x) for x in prog["dom"]) | set(int(x) for x in prog.get("ongoing", {}))):
                watch.append((f"n{i}.sig{k}", e1.b.sigs[k], e2.b.sigs[k]))
            watch.append((f"n{i}.split", e1.split, e2.split))
            for d in e1.obs_clk:
                watch.append((f"n{i}.obs_clk_{d}", e1.obs_clk[d], e2.obs_clk[d]))
            for d in e1.obs_rst:
                watch.append((f"n{i}.obs_rst_{d}", e1.obs_rst[d], e2.obs_rst[d]))
            if e1.mem is not None:
                watch.append((f"n{i}.rp_data", Value.cast(e1.rp.data), Value.cast(e2.rp.data)))
        for j, (l1, l2) in enumerate(zip(links, links2)):
            watch.append((f"link{j}", l1, l2))
        # explicitly named ports: the harness must know the top-level wire of every input
        pname = {}            # id(signal) -> top-level port name
        pdict = {}
        def add_port(sig, name):
            if id(sig) not in pname:
                pname[id(sig)] = name
                pdict[name] = (sig, None)
        for n_, s2 in enumerate(list(inputs2) + list(ctls2)):
            add_port(s2, f"in{n_}")
        for d in cds2:                     # the three top-level domains and the ones defined inside submodules
            add_port(cds2[d].clk, f"clk_{d}")
            if cds2[d].rst is not None:
                add_port(cds2[d].rst, f"rst_{d}")
        bits = case["port_bits"]
        for j, (_, _, s2) in enumerate(watch):
            if (bits >> (j % 30)) & 1 and j % 3 == 0:
                add_port(s2, f"out{j}")
        text, name_map = rtlil.convert_fragment(Fragment.get(top2, None), ports=pdict, name="top")
    try:
        design = RR.parse(text)
        ev = RE.Evaluator(design)
    except (RR.RTLILSyntaxError, RR.UnknownWire, RR.SliceOutOfBounds) as e:
        raise Mismatch("rtlil-does-not-parse", error=str(e)[:300])

    def path_of(sig):
        if id(sig) in pname and ("\\" + pname[id(sig)],) in ev.wires:
            return ("\\" + pname[id(sig)],)
        if sig not in name_map:
            return None
        nm = name_map[sig]
        return tuple("\\" + p for p in nm[1:])

    def port_name(sig):
        """Top-level wire of an input, or None when the design does not use it (then it is not in the RTLIL)."""
        nm = "\\" + pname[id(sig)]
        return nm if nm in ev.inputs else None

    def rt_set(upd):
        upd = {k: v for k, v in upd.items() if k is not None}
        if upd:
            ev.set_inputs(upd)
    stats = dict(compared=0, masked=0, missing=0, changed=False)
    fail = []
    # all inputs start at their initial values
    init_vals = {}
    for name, (s2, _) in pdict.items():
        if "\\" + name in ev.inputs:
            init_vals["\\" + name] = s2.init & ((1 << len(s2)) - 1)
    ev.set_inputs(init_vals)
    last = {}

    def compare(c, step, evn):
        for label, s1, s2 in watch:
            p = path_of(s2)
            if p is None or p not in ev.wires:
                stats["missing"] += 1
                continue
            w = len(s1)
            got = c.get(s1) & ((1 << w) - 1)
            rv, rx = ev.get(p)
            stats["compared"] += 1
            if rx:
                stats["masked"] += 1
                if step == -1 and not label.endswith("rp_data"):
                    # nothing in these designs is undefined at power-on except a memory read port that has not read
                    # yet: a register that loses its initial value in translation must not hide behind the mask
                    return Mismatch("rtlil-undefined-at-power-on", signal=label, rtlil_wire=list(p), simulator=got,
                                    rtlil_undef_mask=rx)
            if (got ^ rv) & ~rx & ((1 << w) - 1):
                return Mismatch("simulator-and-rtlil-disagree", step=step, event=evn, signal=label, rtlil_wire=list(p),
                                simulator=got, rtlil=rv, rtlil_undef_mask=rx, wrappers=[n["wrappers"] for n in nodes])
            if last.get(label, got) != got:
                stats["changed"] = True
            last[label] = got
        return None

    level = {d: 0 for d in cds}

    async def tb(c):
        mm = compare(c, -1, "initial")
        if mm: fail.append(mm); return
        for step, evn in enumerate(case["events"]):
            k = evn[0]
            if k == "clk":
                doms = sorted(set(evn[1]))
                v = 0
                upd = {}
                for j, d in enumerate(doms):
                    level[d] ^= 1
                    v |= level[d] << j
                    upd[port_name(cds2[d].clk)] = level[d]
                c.set(Cat(*[cds[d].clk for d in doms]), v)
                rt_set(upd)
            elif k == "in":
                _, i, chg = evn
                upd = {}
                for j, val in chg.items():
                    s1, s2 = elabs[i].b.sigs[int(j)], elabs2[i].b.sigs[int(j)]
                    c.set(s1, val)
                    upd[port_name(s2)] = val & ((1 << len(s2)) - 1)
                rt_set(upd)
            elif k == "ctl":
                c.set(ctls[evn[1]], evn[2]); rt_set({port_name(ctls2[evn[1]]): evn[2]})
            elif k == "rst":
                d = evn[1]
                c.set(cds[d].rst, evn[2]); rt_set({port_name(cds2[d].rst): evn[2]})
            elif k == "split":
                c.set(elabs[evn[1]].split_in, evn[2]); rt_set({port_name(elabs2[evn[1]].split_in): evn[2]})
            elif k == "mem":
                _, i, d = evn
                e1, e2 = elabs[i], elabs2[i]
                upd = {}
                for (s1, s2, val) in ((e1.wp.addr, e2.wp.addr, d["waddr"]), (e1.wp.data, e2.wp.data, d["wdata"]),
                                      (e1.wp.en, e2.wp.en, d["wen"]), (e1.rp.addr, e2.rp.addr, d["raddr"]),
                                      (e1.rp.en, e2.rp.en, d["ren"])):
                    c.set(s1, val)
                    upd[port_name(Value.cast(s2))] = val
                rt_set(upd)
            mm = compare(c, step, evn)
            if mm: fail.append(mm); return
    with warnings.catch_warnings():
        warnings.simplefilter("ignore")
        sim.add_testbench(tb)
        sim.run()
    if fail:
        raise fail[0]
    nmod = len(design.modules)
    nested = any(_nested(p.body) for m in design.modules.values() for p in m.processes)
    hasmem = any(m.memories for m in design.modules.values())
    keys = []
    if nmod >= 2: keys.append("c04:>=2-modules")
    if nested: keys.append("c04:nested-switch")
    if hasmem: keys.append("c04:memory")
    if stats["changed"]: keys.append("c04:trace-not-constant")
    if case["links"]: keys.append("c04:cross-module-links")
    if any(c_.type == "$adff" for m in design.modules.values() for c_ in m.cells): keys.append("c04:async-reset-flops")
    if any(c_.type == "$shift" for m in design.modules.values() for c_ in m.cells): keys.append("c04:part-select")
    if any(c_.type in ("$divfloor", "$modfloor") for m in design.modules.values() for c_ in m.cells): keys.append("c04:division")
    ctx.extra["programs"] = ctx.extra.get("programs", 0) + 1
    ctx.extra["disagreements_checked"] = ctx.extra.get("disagreements_checked", 0) + stats["compared"]
    ctx.extra["masked_comparisons"] = ctx.extra.get("masked_comparisons", 0) + stats["masked"]
    ctx.extra["signals_not_in_rtlil"] = ctx.extra.get("signals_not_in_rtlil", 0) + stats["missing"]
    ctx.note(case, (nmod >= 2 or nested or hasmem) and stats["changed"], *keys, evals=stats["compared"])


def _nested(body, depth=0):
    for node in body:
        if node[0] == "switch":
            if depth >= 1 and node[1]:
                return True
            for _, sub in node[2]:
                if _nested(sub, depth + (1 if node[1] else 0)):
                    return True
    return False


def expr_body(ctx, case):
    """One deep expression (C01's grammar): computed in a submodule from top-level inputs, observed combinationally
    in a widened signal and through a register; RTLIL evaluator vs simulator on exhaustive or corner input vectors."""
    from vlib import gen_expr as G, build as B, refsem as R
    from amaranth.hdl import ClockDomain
    env, e = case["env"], case["expr"]
    vectors, exhaustive = G.input_vectors(env)
    if len(vectors) > 48:
        step = len(vectors) / 48.0
        vectors = [vectors[int(i * step)] for i in range(48)]
    def mk():
        sigs = B.make_inputs(env)
        top = Module()
        top.domains.sync = cd = ClockDomain()
        sub = Module()
        top.submodules.sub = sub
        rw, rs = R.shape_of(e, env)
        v = Value.cast(B.expr(e, sigs))
        o = Signal(B.mkshape(rw + 2, rs), name="o")
        r = Signal(B.mkshape(rw + 2, rs), name="r")
        narrow = Signal(B.mkshape(max(rw - 1, 0 if rs else 1), not rs), name="narrow")
        sub.d.comb += o.eq(v)
        top.d.sync += r.eq(o)
        top.d.comb += narrow.eq(o)
        return top, cd, sigs, o, r, narrow
    simorder.set_policy(None)
    with warnings.catch_warnings():
        warnings.simplefilter("ignore")
        top, cd, sigs, o, r, narrow = mk()
        sim = Simulator(top)
        top2, cd2, sigs2, o2, r2, narrow2 = mk()
        pd = {f"i{k}": (s_, None) for k, s_ in enumerate(sigs2)}
        pd.update({"o": (o2, None), "r": (r2, None), "narrow": (narrow2, None), "clk": (cd2.clk, None), "rst": (cd2.rst, None)})
        text, _ = rtlil.convert_fragment(Fragment.get(top2, None), ports=pd, name="top")
    try:
        design = RR.parse(text)
        ev = RE.Evaluator(design)
    except (RR.RTLILSyntaxError, RR.UnknownWire, RR.SliceOutOfBounds) as ex:
        raise Mismatch("rtlil-does-not-parse", error=str(ex)[:300])
    def rset(upd):
        upd = {"\\" + k: v for k, v in upd.items() if "\\" + k in ev.inputs}
        if upd:
            ev.set_inputs(upd)
    rset({**{f"i{k}": 0 for k in range(len(sigs))}, "clk": 0, "rst": 0})
    for name in ("o", "r", "narrow"):
        if ("\\" + name,) in ev.wires and ev.get(("\\" + name,))[1]:
            raise Mismatch("rtlil-undefined-at-power-on", signal=name, env=env, expr=e, rtlil_undef_mask=ev.get(("\\" + name,))[1])
    fail = []
    n = [0, 0]

    async def tb(c):
        for vec in vectors:
            upd = {}
            for k, (s_, x) in enumerate(zip(sigs, vec)):
                c.set(s_, x)
                upd[f"i{k}"] = x & ((1 << len(s_)) - 1)
            rset(upd)
            c.set(cd.clk, 1); rset({"clk": 1})
            c.set(cd.clk, 0); rset({"clk": 0})
            for name, s1 in (("o", o), ("r", r), ("narrow", narrow)):
                w = len(s1)
                got = c.get(s1) & ((1 << w) - 1)
                if ("\\" + name,) not in ev.wires:
                    continue
                rv, rx = ev.get(("\\" + name,))
                n[0] += 1
                if rx: n[1] += 1
                if (got ^ rv) & ~rx & ((1 << w) - 1):
                    fail.append(Mismatch("simulator-and-rtlil-disagree", signal=name, env=env, expr=e, inputs=vec,
                                         simulator=got, rtlil=rv, rtlil_undef_mask=rx)); return
    with warnings.catch_warnings():
        warnings.simplefilter("ignore")
        sim.add_testbench(tb)
        sim.run()
    if fail:
        raise fail[0]
    ops = R.ops_in(e)
    d = R.depth(e)
    keys = [f"expr:depth{min(d, 5)}"] + ["xop:" + op for op in ops]
    ctx.extra["programs"] = ctx.extra.get("programs", 0) + 1
    ctx.extra["disagreements_checked"] = ctx.extra.get("disagreements_checked", 0) + n[0]
    ctx.extra["masked_comparisons"] = ctx.extra.get("masked_comparisons", 0) + n[1]
    ctx.note(case, d >= 2, *keys, evals=n[0])


# ------------------------------------------------------------------------------------------ standard-library blocks
def lib_make(kind, p):
    """-> (top, inputs, outputs, clock signals)"""
    from amaranth.hdl import ClockDomain
    from amaranth.lib import fifo, cdc, crc
    top = Module()
    cds = [ClockDomain("sync"), ClockDomain("other")]
    top.domains += cds
    if kind in ("SyncFIFO", "SyncFIFOBuffered"):
        f = getattr(fifo, kind)(width=p["w"], depth=p["depth"])
        top.submodules.dut = f
        ins, outs = [f.w_data, f.w_en, f.r_en], [f.w_rdy, f.r_rdy, f.r_data, f.level]
    elif kind in ("AsyncFIFO", "AsyncFIFOBuffered"):
        f = getattr(fifo, kind)(width=p["w"], depth=max(p["depth"], 2), r_domain="sync", w_domain="other")
        top.submodules.dut = f
        ins, outs = [f.w_data, f.w_en, f.r_en], [f.w_rdy, f.r_rdy, f.r_data, f.r_level, f.w_level]
    elif kind == "crc":
        algo = crc.Algorithm(crc_width=p["w"] + 3, polynomial=(p["poly"] | 1) & ((1 << (p["w"] + 3)) - 1), initial_crc=0,
                             reflect_input=bool(p["depth"] & 1), reflect_output=bool(p["depth"] & 2), xor_output=p["poly"] & 5)
        c = algo(max(p["w"], 1)).create()
        top.submodules.dut = c
        ins, outs = [c.start, c.data, c.valid], [c.crc, c.match_detected]
    elif kind == "ffsync":
        i, o = Signal(max(p["w"], 1), name="i"), Signal(max(p["w"], 1), name="o")
        top.submodules.dut = cdc.FFSynchronizer(i, o, o_domain="other", stages=2 + p["depth"] % 3, init=p["poly"] & ((1 << max(p["w"], 1)) - 1))
        ins, outs = [i], [o]
    elif kind == "pulse":
        ps = cdc.PulseSynchronizer("sync", "other", stages=2 + p["depth"] % 2)
        top.submodules.dut = ps
        ins, outs = [ps.i], [ps.o]
    elif kind == "resetsync":
        a = Signal(name="arst")
        top.submodules.dut = cdc.ResetSynchronizer(a, domain="other", stages=2 + p["depth"] % 3)
        r = Signal(4, name="r")
        top.d.other += r.eq(r + 1)
        ins, outs = [a], [r]
        return top, ins, outs, [cds[0].clk, cds[1].clk], [cds[0].rst]
    else:
        raise HarnessError(kind)
    return top, ins, outs, [cds[0].clk, cds[1].clk], [cds[0].rst, cds[1].rst]


LIB_KINDS = ["SyncFIFO", "SyncFIFOBuffered", "AsyncFIFO", "AsyncFIFOBuffered", "crc", "ffsync", "pulse", "resetsync"]


@st.composite
def lib_cases(draw, nev):
    kind = PICK(draw, LIB_KINDS)
    p = {"w": draw(INT(0, 5)), "depth": draw(INT(0, 6)), "poly": draw(INT(0, 255))}
    evs = []
    for _ in range(nev):
        k = draw(INT(0, 9))
        if k <= 4:
            evs.append(["clk", PICK(draw, [[0], [1], [0, 1], [0], [1]])])
        elif k <= 8:
            evs.append(["in", draw(INT(0, 2)), draw(INT(0, 63))])
        else:
            evs.append(["rst", draw(INT(0, 1)), draw(INT(0, 1))])
    return {"kind": kind, "p": p, "events": evs}


def lib_body(ctx, case):
    simorder.set_policy(None)
    with warnings.catch_warnings():
        warnings.simplefilter("ignore")
        top, ins, outs, clks, rsts = lib_make(case["kind"], case["p"])
        sim = Simulator(top)
        top2, ins2, outs2, clks2, rsts2 = lib_make(case["kind"], case["p"])
        pd = {}
        for k, s_ in enumerate(ins2): pd[f"in{k}"] = (s_, None)
        for k, s_ in enumerate(outs2): pd[f"out{k}"] = (s_, None)
        for k, s_ in enumerate(clks2): pd[f"clk{k}"] = (s_, None)
        for k, s_ in enumerate(rsts2): pd[f"rst{k}"] = (s_, None)
        text, _ = rtlil.convert_fragment(Fragment.get(top2, None), ports=pd, name="top")
    try:
        design = RR.parse(text)
        ev = RE.Evaluator(design)
    except (RR.RTLILSyntaxError, RR.UnknownWire, RR.SliceOutOfBounds) as ex:
        raise Mismatch("rtlil-does-not-parse", error=str(ex)[:300])
    def rset(upd):
        upd = {"\\" + k: v for k, v in upd.items() if "\\" + k in ev.inputs}
        if upd:
            ev.set_inputs(upd)
    rset({n_: (s_.init & ((1 << len(s_)) - 1)) for n_, (s_, _) in pd.items()})
    fail = []
    n = [0, 0, False]
    lv = [0, 0]

    async def tb(c):
        last = None
        for step, evn in enumerate(case["events"]):
            if evn[0] == "clk":
                v = 0
                upd = {}
                for j, k in enumerate(evn[1]):
                    lv[k] ^= 1
                    v |= lv[k] << j
                    upd[f"clk{k}"] = lv[k]
                c.set(Cat(*[clks[k] for k in evn[1]]), v)
                rset(upd)
            elif evn[0] == "in":
                if evn[1] < len(ins):
                    s_ = ins[evn[1]]
                    val = evn[2] & ((1 << len(s_)) - 1)
                    c.set(s_, val); rset({f"in{evn[1]}": val})
            else:
                if evn[1] < len(rsts):
                    c.set(rsts[evn[1]], evn[2]); rset({f"rst{evn[1]}": evn[2]})
            cur = []
            for k, s1 in enumerate(outs):
                w = len(s1)
                got = c.get(s1) & ((1 << w) - 1)
                cur.append(got)
                if ("\\" + f"out{k}",) not in ev.wires:
                    continue
                rv, rx = ev.get(("\\" + f"out{k}",))
                n[0] += 1
                if rx: n[1] += 1
                if (got ^ rv) & ~rx & ((1 << w) - 1):
                    fail.append(Mismatch("simulator-and-rtlil-disagree", block=case["kind"], params=case["p"], step=step, event=evn,
                                         output=k, simulator=got, rtlil=rv, rtlil_undef_mask=rx)); return
            if last is not None and cur != last: n[2] = True
            last = cur
    with warnings.catch_warnings():
        warnings.simplefilter("ignore")
        sim.add_testbench(tb)
        sim.run()
    if fail:
        raise fail[0]
    ctx.extra["programs"] = ctx.extra.get("programs", 0) + 1
    ctx.extra["disagreements_checked"] = ctx.extra.get("disagreements_checked", 0) + n[0]
    ctx.extra["masked_comparisons"] = ctx.extra.get("masked_comparisons", 0) + n[1]
    ctx.note(case, n[2], "lib:" + case["kind"], evals=n[0])


def parts(tier):
    q = tier == "quick"
    simorder.install()
    from vlib import gen_expr as G
    return [Part("designs", "hyp", strategy=cases(2 if q else 3, 16 if q else 40), body=body, n=60 if q else 1000),
            Part("expressions", "hyp", strategy=G.expr_case(depth=3 if q else 5, maxw=6 if q else 10), body=expr_body,
                 n=250 if q else 4000),
            Part("library", "hyp", strategy=lib_cases(40 if q else 120), body=lib_body, n=60 if q else 800)]


REQUIRED = ["c04:>=2-modules", "c04:nested-switch", "c04:memory", "c04:trace-not-constant", "c04:cross-module-links",
            "c04:async-reset-flops", "c04:part-select", "expr:depth3"] + ["lib:" + k for k in LIB_KINDS] + \
           ["xop:" + o for o in ("b:+", "b:-", "b:*", "b://", "b:%", "b:<<", "b:>>", "b:==", "b:<", "b:&", "u:neg", "u:~", "u:abs",
                                 "u:as_s", "u:as_u", "bsel", "wsel", "mux", "arr", "match", "cat", "rep", "slice", "rol", "shl")]


def coverage_extra(tier, counters, extra):
    total = int(extra.get("disagreements_checked", 0))
    masked = int(extra.get("masked_comparisons", 0))
    return {"programs": int(extra.get("programs", 0)), "disagreements_checked": total,
            "masked_comparisons": masked, "signals_not_in_rtlil": int(extra.get("signals_not_in_rtlil", 0)),
            "trusted_base": ["vlib/rtlil_read.py grammar", "vlib/rtlil_eval.py cell/process/memory semantics (Yosys cell library)"]}
