"""C05 — Testbench reads and writes agree with what a circuit would compute."""
import warnings
from hypothesis import strategies as st

from amaranth.hdl import Module, Signal, Value, Cat, ClockDomain, Const, signed, unsigned
from amaranth.hdl._mem import MemoryData
from amaranth.lib import data as am_data, enum as am_enum, memory as am_memory
from amaranth.sim import Simulator

from vlib.runner import Part, Mismatch
from vlib import refsem as R, build as B, gen_expr as G
from vlib.gen_expr import INT, BOOL, PICK, draw_shape, value_of_shape
from vlib.gen_prog import ProgGen
from vlib.simdrv import run_tb
import vchecks.c01 as c01

PID = "C05"
LEVEL = "exploration"
RULE = ("reads: the C01 expression grammar (sweeps over all operand values for widths<=2/3 and Hypothesis "
        "compositions); ctx.get(expr) must equal both ctx.get(o) of a combinational signal o assigned expr in "
        "the same simulation and the reference value. writes: targets of nesting depth<=3 over undriven signals "
        "and memory rows (slice, Cat, part-selects with variable offsets incl. beyond the target, array proxies, "
        "sign reinterpretation, rotations); the same value is written (A) with ctx.set(target, v), (B) by the "
        "statement target.eq(v) in a clocked circuit whose registers start in the same state, (C) in the reference "
        "per-bit model; the complete state must be identical in all three after every write. castable: struct/"
        "enum-shaped signals round-trip through from_bits/const (incl. signals and memory rows shaped by signed enumerations with negative "
        "members). arrays: array proxies with signed, too wide or too narrow indices, read and written from the testbench "
        "and by a circuit - only agreement between the two is demanded. Non-trivial: reads of depth>=2; writes whose "
        "target nests >=2 constructs or addresses bits outside the target or a memory row. Distinct by canonical-JSON hash.")
ASSUMPTIONS = [
    "Same input-domain restrictions as C01 for expressions.",
    "Where one assignment addresses a bit twice (a concatenation naming a signal twice) the parts are taken in order, the later one deciding, as the simulator does for the same statement in a circuit (design B is the oracle for this).",
    "In design B a memory row is modelled as a register of the row's shape (statements cannot assign memory rows).",
]
QUICK_SHARDS = 4
THOROUGH_SHARDS = 16


# ------------------------------------------------------------------------------------------ reads
def check_reads(ctx, env, exprs, vectors, label):
    sigs = B.make_inputs(env)
    m = Module()
    outs, vals = [], []
    for k, e in enumerate(exprs):
        rw, rs = R.shape_of(e, env)
        v = B.expr(e, sigs)
        o = Signal(B.mkshape(rw, rs), name=f"o{k}")
        m.d.comb += o.eq(v)
        outs.append(o)
        vals.append(v)
    n = 0
    bad = []

    async def tb(sim):
        nonlocal n
        for vec in vectors:
            for s, x in zip(sigs, vec):
                sim.set(s, x)
            for k, e in enumerate(exprs):
                exp = R.evaluate(e, env, vec)
                circ = sim.get(outs[k])
                got = sim.get(vals[k])
                n += 1
                if not (got == circ == exp):
                    bad.append((e, vec, exp, circ, got))
                    return
    run_tb(m, tb)
    if bad:
        e, vec, exp, circ, got = bad[0]
        raise Mismatch("read", env=env, expr=e, inputs=vec, reference=exp, circuit=circ, testbench_get=got, where=label)
    return n


def sweep_cases(ctx):
    maxw = 2 if ctx.tier == "quick" else 3
    sh = c01.shape_list(maxw)
    cases = [["unary", a] for a in c01.shape_list(maxw + 1)]
    cases += [["binary", a, b] for a in sh for b in sh]
    cases += [["probe", a, b] for a in sh for b in sh]
    for i, c in enumerate(cases):
        if i % ctx.nshards == ctx.shard:
            yield c


def sweep_body(ctx, case):
    kind = case[0]
    if kind == "unary":
        (wa, sa), = case[1:]
        env = [[wa, sa]]
        exprs = c01.unary_exprs(wa, sa)
        vectors = [[a] for a in c01.all_values(wa, sa)]
    elif kind == "binary":
        (wa, sa), (wb, sb) = case[1:]
        env = [[wa, sa], [wb, sb]]
        exprs = c01.binary_exprs(wa, sa, wb, sb)
        vectors = [[a, b] for a in c01.all_values(wa, sa) for b in c01.all_values(wb, sb)]
    else:
        (wa, sa), (wb, sb) = case[1:]
        env = [[wa, sa], [wb, sb], [3, False]]
        exprs = c01.probe_exprs(wa, sa, wb, sb)
        vectors = [[a, b, o] for a in c01.all_values(wa, sa) for b in c01.all_values(wb, sb) for o in range(8)]
    n = check_reads(ctx, env, exprs, vectors, kind)
    nz = all(w >= 1 for w, _ in env)
    ctx.note_bulk(n, n if nz else 0, {"kind": kind, "env": env, "n_exprs": len(exprs), "n_vectors": len(vectors)},
                  f"read-sweep:{kind}", "read:zero-width-operand" if not nz else "read:nonzero")


def read_body(ctx, case):
    env, e = case["env"], case["expr"]
    vectors, exhaustive = G.input_vectors(env)
    if len(vectors) > 64:
        step = len(vectors) / 64.0
        vectors = [vectors[int(i * step)] for i in range(64)]
    check_reads(ctx, env, [e], vectors, "compose")
    d = R.depth(e)
    ops = R.ops_in(e)
    ctx.note(case, d >= 2, f"read:depth{min(d, 4)}", *["rop:" + o for o in ops], evals=len(vectors))


# ------------------------------------------------------------------------------------------ writes
@st.composite
def write_cases(draw, n_writes):
    """env = offset inputs, then state entries (signals or memory rows)."""
    env, kinds, inits = [], [], {}
    n_in = draw(INT(1, 2))
    for _ in range(n_in):
        env.append([draw(INT(0, 3)), False]); kinds.append("in")
    mem_shape = draw_shape(draw, 5)
    mem_depth = draw(INT(0, 3))
    n_sig = draw(INT(1, 4))
    for _ in range(n_sig):
        w, s = draw_shape(draw, 7)
        inits[str(len(env))] = draw(value_of_shape(w, s))
        env.append([w, s]); kinds.append("sig")
    for r in range(mem_depth):
        inits[str(len(env))] = draw(value_of_shape(*mem_shape))
        env.append(list(mem_shape)); kinds.append(["row", r])
    pg = ProgGen.__new__(ProgGen)
    pg.draw, pg.env = draw, env
    pg.inputs = list(range(n_in))
    pg.regs, pg.ongoing, pg.comb1, pg.comb2 = {}, {}, [], []
    pool = list(range(n_in, len(env)))
    targets = [pg.lhs(1, pool, depth=draw(INT(0, 3))) for _ in range(draw(INT(1, 3)))]
    # a target in which an earlier part of a concatenation writes the very signal that a later part uses as its index or
    # offset: the index must be taken from the value held BEFORE the assignment (as an assignment statement does)
    sigs_ = [k for k in pool if kinds[k] == "sig"]
    small = [k for k in sigs_ if not env[k][1] and 1 <= env[k][0] <= 2]
    if small and len(sigs_) >= 2 and draw(INT(0, 2)) == 0:
        x = PICK(draw, small)
        ys = [k for k in sigs_ if k != x]
        y = PICK(draw, ys)
        form = draw(INT(0, 2))
        if form == 0 and len(ys) >= 1:
            n = 1 << env[x][0]
            later = ["arr", [["sig", PICK(draw, ys)] for _ in range(n)], ["sig", x]]
        elif form == 1:
            later = ["bsel", ["sig", y], ["sig", x], draw(INT(1, 3))]
        else:
            later = ["wsel", ["sig", y], ["sig", x], draw(INT(1, 2))]
        # parts must not address one bit twice: the array alternatives / part-select base exclude x itself
        targets.append(["cat", [["sig", x], later]] if draw(BOOL) else ["cat", [later, ["sig", x]]])
    # a concatenation that names the same signal (or overlapping slices of it) more than once: an assignment statement
    # assigns the parts in order, so the later part decides; a testbench write must do the same (also when the later
    # part happens to restore the value the signal has at that moment)
    if sigs_ and draw(INT(0, 2)) == 0:
        x = PICK(draw, small or sigs_)
        wx = env[x][0]
        cut = draw(INT(0, wx))
        other = [["sig", k] for k in sigs_ if k != x][:1]
        form = draw(INT(0, 3))
        if form == 0:
            parts = [["sig", x], ["sig", x]]
        elif form == 1:
            parts = [["slice", ["sig", x], 0, cut], ["sig", x]]
        elif form == 2:
            parts = [["sig", x]] + other + [["slice", ["sig", x], cut, wx]]
        else:
            parts = [["sig", x]] + other + [["sig", x]]
        targets.append(["cat", parts])
    writes = []
    for _ in range(n_writes):
        ins = [draw(value_of_shape(*env[i])) for i in range(n_in)]
        t = draw(INT(0, len(targets) - 1))
        wt = R.shape_of(targets[t], env)[0]
        v = draw(st.one_of(value_of_shape(max(wt, 1), True), st.integers(-(1 << (wt + 3)), 1 << (wt + 3)),
                           st.sampled_from([0, -1, 1])))
        writes.append([ins, t, v])
    return {"env": env, "kinds": kinds, "inits": inits, "targets": targets, "writes": writes,
            "mem_shape": mem_shape, "mem_depth": mem_depth}


def nest_depth(L):
    if L[0] == "sig":
        return 0
    return 1 + max([nest_depth(x) for x in R.subexprs(L) if x[0] in
                    ("sig", "slice", "idx", "cat", "bsel", "wsel", "arr", "u", "rol", "ror", "sslice")] or [0])


def write_body(ctx, case):
    env, kinds, targets = case["env"], case["kinds"], case["targets"]
    inits = {int(k): v for k, v in case["inits"].items()}
    n_in = sum(1 for k in kinds if k == "in")
    state_idx = [i for i, k in enumerate(kinds) if k != "in"]
    with warnings.catch_warnings():
        warnings.simplefilter("ignore")
        # ---- design A: undriven signals + a real memory, written from the testbench
        mA = Module()
        md = MemoryData(shape=B.mkshape(*case["mem_shape"]), depth=case["mem_depth"],
                        init=[inits[i] for i, k in enumerate(kinds) if isinstance(k, list)])
        mA.submodules.mem = mem = am_memory.Memory(md)
        mem.read_port(domain="comb")
        sigsA = []
        for i, k in enumerate(kinds):
            if k == "in":
                sigsA.append(Signal(B.mkshape(*env[i]), name=f"off{i}"))
            elif k == "sig":
                sigsA.append(Signal(B.mkshape(*env[i]), name=f"st{i}", init=inits[i]))
            else:
                sigsA.append(md[k[1]])
        dummy = Signal(64)
        mA.d.comb += dummy.eq(Cat(*[s for s, k in zip(sigsA, kinds) if k == "sig"]))
        lhsA = [B.expr(t, sigsA) for t in targets]
        # ---- design B: same state in registers, written by assignment statements
        mB = Module()
        cd = ClockDomain("sync")
        mB.domains += cd
        sigsB = []
        for i, k in enumerate(kinds):
            if k == "in":
                sigsB.append(Signal(B.mkshape(*env[i]), name=f"off{i}"))
            else:
                sigsB.append(Signal(B.mkshape(*env[i]), name=f"st{i}", init=inits[i]))
        vin = Signal(signed(40))
        sel = Signal(range(max(len(targets), 2)))
        with mB.Switch(sel):
            for t, L in enumerate(targets):
                with mB.Case(t):
                    mB.d.sync += B.expr(L, sigsB).eq(vin)
    vals = [0] * len(env)
    for i, v in inits.items():
        vals[i] = v
    err = []
    outside = [False]

    def ref_write(ins, t, v):
        for i in range(n_in):
            vals[i] = ins[i]
        pending = {i: R.bits(vals[i], env[i][0]) for i in state_idx}
        mp = R.lhs_map(targets[t], env, vals)
        if any(x is None for x in mp):
            outside[0] = True
        R.assign_bits(targets[t], env, vals, v, pending)
        for i in state_idx:
            vals[i] = R.wrap(pending[i], *env[i])

    async def tbA(sim):
        for step, (ins, t, v) in enumerate(case["writes"]):
            for i in range(n_in):
                sim.set(sigsA[i], ins[i])
            sim.set(lhsA[t], v)
            refv = list(vals_trace[step])
            got = [sim.get(sigsA[i]) for i in state_idx]
            if got != [refv[i] for i in state_idx]:
                err.append(dict(design="testbench ctx.set", step=step, write=[ins, t, v], expected=[refv[i] for i in state_idx], actual=got))
                return

    async def tbB(sim):
        for step, (ins, t, v) in enumerate(case["writes"]):
            for i in range(n_in):
                sim.set(sigsB[i], ins[i])
            sim.set(vin, v)
            sim.set(sel, t)
            sim.set(cd.clk, 1)
            sim.set(cd.clk, 0)
            refv = list(vals_trace[step])
            got = [sim.get(sigsB[i]) for i in state_idx]
            if got != [refv[i] for i in state_idx]:
                err.append(dict(design="circuit assignment", step=step, write=[ins, t, v], expected=[refv[i] for i in state_idx], actual=got))
                return

    vals_trace = []
    for ins, t, v in case["writes"]:
        ref_write(ins, t, R.wrap(v, 40, True))
        vals_trace.append(list(vals))
    run_tb(mA, tbA)
    if not err:
        run_tb(mB, tbB)
    if err:
        raise Mismatch("write", env=env, kinds=kinds, targets=targets, **err[0])
    nd = max(nest_depth(t) for t in targets)
    has_row = any(isinstance(kinds[i], list) for t in targets for i in R.lhs_signals(t))
    keys = [f"write:nest{min(nd, 3)}"] + ["wlhs:" + t[0] for t in targets]
    def self_indexed(t):
        if t[0] != "cat" or len(t[1]) != 2:
            return False
        a, b = t[1]
        for first, later in ((a, b), (b, a)):
            if first[0] == "sig" and later[0] in ("arr", "bsel", "wsel") and later[2] == first:
                return True
        return False
    if any(self_indexed(t) for t in targets):
        keys.append("write:index-written-by-same-assignment")
    def named_twice(t):
        if t[0] != "cat":
            return False
        seen = []
        for p_ in t[1]:
            for k_ in R.lhs_signals(p_, set()):
                if k_ in seen:
                    return True
            seen += list(R.lhs_signals(p_, set()))
        return False
    if any(named_twice(t) for t in targets):
        keys.append("write:signal-named-twice-in-one-target")
    if outside[0]:
        keys.append("write:outside-target")
    if has_row:
        keys.append("write:memory-row")
    if any(v < 0 for _, _, v in case["writes"]):
        keys.append("write:negative-value")
    ctx.note(case, nd >= 2 or outside[0] or has_row, *keys, evals=len(case["writes"]))


# ------------------------------------------------------------------------------------------ castables
@st.composite
def castable_cases(draw):
    fields = []
    for i in range(draw(INT(1, 4))):
        k = draw(INT(0, 3))
        if k == 0:
            fields.append([f"f{i}", "enum", draw(INT(2, 4))])
        else:
            w, s = draw_shape(draw, 5)
            fields.append([f"f{i}", "int", w, s])
    raws = [draw(st.integers(0, (1 << 24) - 1)) for _ in range(4)]
    # a signal shaped directly by an enumeration whose shape is signed (members may be negative)
    sw = draw(INT(1, 4))
    # (0 is always a member: the default value of an enumeration-shaped signal or memory row is its member 0)
    svals = sorted(set([0] + [draw(INT(-(1 << (sw - 1)), (1 << (sw - 1)) - 1)) for _ in range(draw(INT(1, 4)))]))
    return {"fields": fields, "raws": raws, "senum": {"w": sw, "values": svals}}


def castable_body(ctx, case):
    enums = {}
    lay = {}
    for f in case["fields"]:
        if f[1] == "enum":
            ns = am_enum.EnumType.__prepare__(f"E_{f[0]}", (am_enum.Enum,))
            for j in range(f[2]):
                ns[f"M{j}"] = j
            E = am_enum.EnumType(f"E_{f[0]}", (am_enum.Enum,), ns, shape=unsigned(R.min_width(f[2] - 1, False, 1)))
            enums[f[0]] = E
            lay[f[0]] = E
        else:
            lay[f[0]] = B.mkshape(f[2], f[3])
    layout = am_data.StructLayout(lay)
    sig = Signal(layout)
    m = Module()
    dummy = Signal(layout.size + 1)
    m.d.comb += dummy.eq(sig.as_value() + 1)
    width = layout.size
    err = []

    def field_ref(raw, f, off):
        if f[1] == "enum":
            w = R.min_width(f[2] - 1, False, 1)
            return (raw >> off) & ((1 << w) - 1), w
        w, s = f[2], f[3]
        return R.wrap((raw >> off) & ((1 << w) - 1), w, s), w

    async def tb(sim):
        for raw in case["raws"]:
            raw &= (1 << width) - 1
            sim.set(sig.as_value(), raw)
            c = sim.get(sig)
            if c.as_bits() != raw:
                err.append(dict(what="from_bits/as_bits", raw=raw, actual=c.as_bits())); return
            off = 0
            legal = True
            for f in case["fields"]:
                exp, w = field_ref(raw, f, off)
                if f[1] == "enum" and exp >= f[2]:
                    legal = False
                off += w
            if not legal:
                continue
            off = 0
            py = {}
            for f in case["fields"]:
                exp, w = field_ref(raw, f, off)
                got = c[f[0]]
                if f[1] == "enum":
                    got = got.value if hasattr(got, "value") else got
                if got != exp:
                    err.append(dict(what="get-field", raw=raw, field=f, expected=exp, actual=repr(got))); return
                py[f[0]] = enums[f[0]](exp) if f[1] == "enum" else exp
                off += w
            # writing back what was read is the identity
            sim.set(sig.as_value(), 0)
            sim.set(sig, c)
            if sim.get(sig.as_value()) != raw:
                err.append(dict(what="set(get) not identity", raw=raw, actual=sim.get(sig.as_value()))); return
            # writing Python-level field values gives the same bits
            sim.set(sig.as_value(), (1 << width) - 1)
            sim.set(sig, py)
            if sim.get(sig.as_value()) != raw:
                err.append(dict(what="set(dict)", raw=raw, actual=sim.get(sig.as_value()))); return
    se = case.get("senum")
    if se:
        ns = am_enum.EnumType.__prepare__("SE", (am_enum.Enum,))
        for j, v in enumerate(se["values"]):
            ns[f"M{j}"] = v
        SE = am_enum.EnumType("SE", (am_enum.Enum,), ns, shape=signed(se["w"]))
        m0 = SE(se["values"][0])
        es = Signal(SE, name="es", init=m0)
        erow = MemoryData(shape=SE, depth=2, init=[m0, m0])
        m.submodules.emem = emem = am_memory.Memory(erow)
        emem.read_port(domain="comb")
        keep = Signal(se["w"])
        m.d.comb += keep.eq(Value.cast(es))

    async def tb_all(sim):
        await tb(sim)
        if err or not se:
            return
        for v in se["values"]:
            sim.set(Value.cast(es), v)
            try:
                got = sim.get(es)
            except ValueError as e:      # the value is a member: the conversion has nothing to refuse
                err.append(dict(what="get of a signed enumeration", value=v, actual=f"ValueError: {e}")); return
            if not isinstance(got, SE) or got.value != v:
                err.append(dict(what="get of a signed enumeration", value=v, actual=repr(got))); return
            sim.set(Value.cast(es), se["values"][0])
            sim.set(es, SE(v))
            if sim.get(Value.cast(es)) != v:
                err.append(dict(what="set of a signed enumeration member", value=v, actual=sim.get(Value.cast(es)))); return
            sim.set(erow[1], SE(v))
            try:
                got = sim.get(erow[1])
            except ValueError as e:
                err.append(dict(what="memory row of a signed enumeration", value=v, actual=f"ValueError: {e}")); return
            if not isinstance(got, SE) or got.value != v:
                err.append(dict(what="memory row of a signed enumeration", value=v, actual=repr(got))); return
    run_tb(m, tb_all)
    if err:
        raise Mismatch("castable", fields=case["fields"], **err[0])
    keys = ["castable:enum" if enums else "castable:ints"]
    if se and any(v < 0 for v in se["values"]): keys.append("castable:signed-enum-negative-member")
    ctx.note(case, len(case["fields"]) >= 2, *keys, evals=len(case["raws"]) + (len(se["values"]) if se else 0))


# ------------------------------------------------------------------------------------------ arrays with any index
@st.composite
def array_cases(draw):
    """Array proxies whose index may be signed, wider than needed or too narrow to reach every element: nothing but
    agreement between the testbench and a circuit is demanded (the reference grammar only has in-range indices)."""
    n = draw(INT(1, 5))
    ew, es = draw_shape(draw, 4)
    iw = draw(INT(0, 3)); isg = draw(BOOL) and iw > 0
    steps = [[draw(value_of_shape(iw, isg)), draw(value_of_shape(max(ew, 1), True))] for _ in range(draw(INT(2, 8)))]
    return {"n": n, "elem": [ew, es], "index": [iw, isg], "inits": [draw(value_of_shape(ew, es)) for _ in range(n)],
            "steps": steps, "nested": draw(INT(0, 3)) == 0}


def array_body(ctx, case):
    from amaranth.hdl import Array
    n, (ew, es), (iw, isg) = case["n"], case["elem"], case["index"]
    with warnings.catch_warnings():
        warnings.simplefilter("ignore")
        mA, mB = Module(), Module()
        cd = ClockDomain("sync"); mB.domains += cd
        eA = [Signal(B.mkshape(ew, es), name=f"e{i}", init=case["inits"][i]) for i in range(n)]
        eB = [Signal(B.mkshape(ew, es), name=f"e{i}", init=case["inits"][i]) for i in range(n)]
        iA, iB = Signal(B.mkshape(iw, isg), name="idx"), Signal(B.mkshape(iw, isg), name="idx")
        vin = Signal(signed(8))
        def proxy(elems, idx):
            if case["nested"]:        # a slice of the selected element
                return Array(elems)[idx][:max(ew - 1, 0)]
            return Array(elems)[idx]
        rdA = Signal(B.mkshape(max(ew, 1), es), name="rd")
        mA.d.comb += rdA.eq(proxy(eA, iA))
        mB.d.sync += proxy(eB, iB).eq(vin)
        simB = Simulator(mB)
    fail = []
    trace = []

    async def tbB(c):
        for idx, v in case["steps"]:
            c.set(iB, idx); c.set(vin, v)
            c.set(cd.clk, 1); c.set(cd.clk, 0)
            trace.append([c.get(x) for x in eB])

    async def tbA(c):
        for k, (idx, v) in enumerate(case["steps"]):
            c.set(iA, idx)
            got, circ = c.get(proxy(eA, iA)), c.get(rdA)
            w = max(ew - 1, 0) if case["nested"] else ew
            if (got - circ) % (1 << max(w, 1)) and w:
                fail.append(Mismatch("array-read-differs-from-circuit", step=k, index=idx, testbench=got, circuit=circ)); return
            c.set(proxy(eA, iA), v)
            now = [c.get(x) for x in eA]
            if now != trace[k]:
                fail.append(Mismatch("array-write-differs-from-circuit", step=k, index=idx, value=v, testbench=now,
                                     circuit=trace[k])); return
    with warnings.catch_warnings():
        warnings.simplefilter("ignore")
        simB.add_testbench(tbB); simB.run()
        run_tb(mA, tbA)
    if fail:
        raise fail[0]
    keys = ["array:index-signed" if isg else "array:index-unsigned"]
    if isg and any(i < 0 for i, _ in case["steps"]): keys.append("array:negative-index")
    if not isg and any(i >= n for i, _ in case["steps"]): keys.append("array:index-beyond-the-last-element")
    if (1 << iw) < n or (isg and (1 << (iw - 1)) < n): keys.append("array:elements-the-index-cannot-reach")
    ctx.note(case, len(keys) >= 2, *keys, evals=2 * len(case["steps"]))


def parts(tier):
    q = tier == "quick"
    return [
        Part("read_sweep", "enum", cases=sweep_cases, body=sweep_body, exhaustive=True),
        Part("reads", "hyp", strategy=G.expr_case(depth=3 if q else 5, maxw=6 if q else 10), body=read_body,
             n=400 if q else 4000),
        Part("writes", "hyp", strategy=write_cases(6 if q else 12), body=write_body, n=400 if q else 4000),
        Part("castable", "hyp", strategy=castable_cases(), body=castable_body, n=100 if q else 1000),
        Part("arrays", "hyp", strategy=array_cases(), body=array_body, n=150 if q else 2000),
    ]


REQUIRED = ["read:zero-width-operand", "read-sweep:probe", "read:depth3", "write:nest2", "write:nest3",
            "write:outside-target", "write:memory-row", "write:negative-value", "wlhs:cat", "wlhs:bsel",
            "wlhs:wsel", "wlhs:arr", "wlhs:slice", "wlhs:u", "castable:enum", "write:index-written-by-same-assignment",
            "castable:signed-enum-negative-member", "array:negative-index", "array:index-beyond-the-last-element",
            "array:elements-the-index-cannot-reach", "write:signal-named-twice-in-one-target"]
