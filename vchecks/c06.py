"""C06 — Multiply-driven bits and combinational loops are rejected; legal designs are not."""
import warnings
from hypothesis import strategies as st

from amaranth.hdl import (Module, Signal, Const, Cat, Mux, ClockDomain, Instance, IOPort, IOBufferInstance, Fragment,
                          ResetInserter, EnableInserter, ClockSignal, ResetSignal)
from amaranth.hdl import SyntaxError as AmaranthSyntaxError
from amaranth.hdl._ir import build_netlist, DriverConflict
from amaranth.hdl._nir import CombinationalCycle
from amaranth.back import rtlil

from vlib.runner import Part, Mismatch, HarnessError
from vlib.gen_expr import INT, BOOL, PICK

PID = "C06"
LEVEL = "exploration"
RULE = ("drivers: Hypothesis generates signals (width 1..6), a module tree (<=4 modules) and a placement list of "
        "(signal, bit range, owner) with owner = logic in (module, domain in comb/sync/other) | instance output | I/O "
        "buffer input, first legal (bit-disjoint owners, or the same owner twice) and then mutated by one near-miss "
        "step (range grown by a bit, owner moved to another module or domain, an instance or buffer output overlapped, "
        "a second instance on the same bits); the model says conflict iff some bit has two different owners; "
        "expected DriverConflict from conversion (or the Module DSL's own driver-driver SyntaxError when both drivers "
        "are in one module) iff conflict. cycles: combinational designs over 2..4 signals (width 1..4) in one or two "
        "modules: assignments s[a:b].eq(e), optionally under If/Elif/Else or Switch, e built from bit-precise constructs "
        "(slices, Cat, replicate, shifts by constants, ~ & | ^, Mux) and word-level operators (+ - == < any "
        "variable shift, variable part-select). Two dependency graphs over signal bits are computed from the "
        "descriptor with an own DFS: a PRECISE one (per-bit for bit-precise constructs, carry chains for + -, "
        "branch i of a chain depends on tests 0..i) and a COARSE one (word-level operators and the tests of the whole "
        "chain are all-to-all). A cycle in the precise graph => CombinationalCycle is demanded; no cycle in the "
        "coarse graph => acceptance is demanded; in between nothing is demanded (counted). Four classes counted: "
        "legal, conflicting, acyclic-with-intra-signal-feeding, cyclic. Non-trivial: both members of a legal/near-miss "
        "pair executed; cycle designs with intra-signal feeding or a cycle through >=2 signals. Distinct by "
        "canonical hash of the case.")
ASSUMPTIONS = [
    "All signals in cycle designs are unsigned (zero extension adds no dependency).",
    "A design whose only cycles go through the granularity gap (word-level operator bit positions, later tests of an "
    "If/Elif chain) is neither required to be accepted nor to be rejected.",
]
QUICK_SHARDS = 4
THOROUGH_SHARDS = 16

MODS = [None, 0, 0, 1]          # parent of module i
DOMS = ["comb", "sync", "other"]


# ------------------------------------------------------------------------------------------ drivers
@st.composite
def driver_cases(draw):
    nsig = draw(INT(1, 3))
    widths = [draw(INT(1, 6)) for _ in range(nsig)]
    nmod = draw(INT(1, 4))
    placements = []
    for s, w in enumerate(widths):
        cuts = sorted(set([0, w] + [draw(INT(0, w)) for _ in range(draw(INT(0, 2)))]))
        for lo, hi in zip(cuts, cuts[1:]):
            if draw(INT(0, 5)) == 0:
                continue          # leave these bits undriven
            kind = PICK(draw, ["logic", "logic", "logic", "inst", "iob"])
            # "form": how the target is spelled (a plain slice, a slice of a sign reinterpretation, a reinterpreted
            # slice, a part select with constant offset, a concatenation of two slices) - the addressed bits are the same
            own = {"sig": s, "lo": lo, "hi": hi, "kind": kind, "mod": draw(INT(0, nmod - 1)), "dom": PICK(draw, DOMS),
                   "form": draw(INT(0, 5))}
            placements.append(own)
            if kind == "logic" and draw(INT(0, 3)) == 0:
                # the same owner assigning an overlapping range again: legal
                lo2 = draw(INT(lo, hi - 1)); hi2 = draw(INT(lo2 + 1, hi))
                placements.append(dict(own, lo=lo2, hi=hi2))
    mut = PICK(draw, ["none", "none", "grow", "move-module", "move-domain", "overlap-inst", "overlap-iob", "second-inst",
                      "dup-other-owner"])
    # control inserters around submodules: they act on the bits the module drives and must not claim others
    wraps = [PICK(draw, [None, None, "R", "E"]) for _ in range(nmod)]
    # the clock domains are defined by the design, or left to be created on conversion - with their clock / reset
    # signals named among the ports by the caller (who wants them in a known place of the port list)
    return {"widths": widths, "nmod": nmod, "placements": placements, "mutation": mut,
            "r": [draw(INT(0, 10 ** 6)) for _ in range(3)], "wraps": wraps, "implicit_domains": draw(INT(0, 3)) == 0}


def mutate(case):
    pl = [dict(p) for p in case["placements"]]
    mut, r, widths, nmod = case["mutation"], case["r"], case["widths"], case["nmod"]
    if mut == "none" or not pl:
        return pl, "none"
    i = r[0] % len(pl)
    p = pl[i]
    w = widths[p["sig"]]
    if mut == "grow":
        if p["hi"] < w and r[1] % 2:
            p["hi"] += 1
        elif p["lo"] > 0:
            p["lo"] -= 1
        elif p["hi"] < w:
            p["hi"] += 1
        else:
            return pl, "none"
    elif mut == "move-module":
        if nmod < 2 or p["kind"] != "logic":
            return pl, "none"
        q = dict(p, mod=(p["mod"] + 1 + r[1] % (nmod - 1)) % nmod)
        pl.append(q)
    elif mut == "move-domain":
        if p["kind"] != "logic":
            return pl, "none"
        q = dict(p, dom=DOMS[(DOMS.index(p["dom"]) + 1 + r[1] % 2) % 3])
        pl.append(q)
    elif mut in ("overlap-inst", "overlap-iob", "second-inst"):
        lo = p["lo"] + r[1] % (p["hi"] - p["lo"])
        hi = lo + 1 + r[2] % (p["hi"] - lo)
        kind = {"overlap-inst": "inst", "overlap-iob": "iob", "second-inst": "inst"}[mut]
        pl.append({"sig": p["sig"], "lo": lo, "hi": hi, "kind": kind, "mod": r[2] % nmod, "dom": "comb"})
    elif mut == "dup-other-owner":
        q = dict(p, kind="logic", mod=r[1] % nmod, dom=DOMS[r[2] % 3])
        pl.append(q)
    return pl, mut


def owner_id(i, p):
    if p["kind"] == "logic":
        return ("logic", p["mod"], p["dom"])
    return (p["kind"], i)          # every instance / buffer is its own driver


def model_conflict(pl, widths):
    bits = {}
    for i, p in enumerate(pl):
        for b in range(p["lo"], p["hi"]):
            bits.setdefault((p["sig"], b), set()).add(owner_id(i, p))
    return any(len(v) > 1 for v in bits.values())


def build_drivers(case, pl):
    widths, nmod = case["widths"], case["nmod"]
    sigs = [Signal(w, name=f"s{i}") for i, w in enumerate(widths)]
    ins = [Signal(w, name=f"in{i}") for i, w in enumerate(widths)]
    mods = [Module() for _ in range(nmod)]
    extra_ports = []
    if case.get("implicit_domains"):
        used = sorted({p["dom"] for p in pl if p["kind"] == "logic" and p["dom"] != "comb"})
        for k, d in enumerate(used):
            extra_ports.append(ClockSignal(d))
            if (case["r"][0] + k) % 2:
                extra_ports.append(ResetSignal(d))
        for d in {"sync", "other"} - set(used):
            mods[0].domains += ClockDomain(d)        # (named by the control inserters only)
    else:
        mods[0].domains += [ClockDomain("sync"), ClockDomain("other")]
    wraps = case.get("wraps") or [None] * nmod
    ctl = Signal(name="ctl")
    for i in range(1, nmod):
        sub = mods[i]
        if wraps[i] == "R":
            sub = ResetInserter({"sync": ctl, "other": ctl})(sub)
        elif wraps[i] == "E":
            sub = EnableInserter({"sync": ctl, "other": ctl})(sub)
        setattr(mods[MODS[i]].submodules, f"m{i}", sub)
    for i, p in enumerate(pl):
        m = mods[p["mod"]]
        tgt = sigs[p["sig"]][p["lo"]:p["hi"]] if (p["lo"], p["hi"]) != (0, widths[p["sig"]]) else sigs[p["sig"]]
        if p["kind"] == "logic":
            sg, lo, hi = sigs[p["sig"]], p["lo"], p["hi"]
            form = p.get("form", 0)
            if form == 1: tgt = sg.as_unsigned()[lo:hi]
            elif form == 2: tgt = sg.as_signed()[lo:hi]
            elif form == 3: tgt = sg[lo:hi].as_unsigned()
            elif form == 4: tgt = sg.bit_select(lo, hi - lo)
            elif form == 5 and hi - lo >= 2: tgt = Cat(sg[lo:lo + 1], sg[lo + 1:hi])
            m.d[p["dom"]] += tgt.eq(ins[p["sig"]][p["lo"]:p["hi"]])
        elif p["kind"] == "inst":
            m.submodules += Instance("blk", o_q=tgt, i_d=ins[p["sig"]])
        else:
            m.submodules += IOBufferInstance(IOPort(p["hi"] - p["lo"], name=f"pad{i}"), i=tgt)
    return mods[0], extra_ports + sigs + ins + [ctl]


def driver_body(ctx, case):
    results = []
    for variant in ("legal", "mutated"):
        pl = case["placements"] if variant == "legal" else mutate(case)[0]
        conflict = model_conflict(pl, case["widths"])
        got = "accepted"
        with warnings.catch_warnings():
            warnings.simplefilter("ignore")
            try:
                top, ports = build_drivers(case, pl)
                rtlil.convert(top, ports=ports)
            except DriverConflict:
                got = "DriverConflict"
            except AmaranthSyntaxError as e:
                if "Driver-driver conflict" not in str(e):
                    raise
                got = "DriverConflict"
        exp = "DriverConflict" if conflict else "accepted"
        if got != exp:
            raise Mismatch("driver-conflict-decision", variant=variant, mutation=case["mutation"], expected=exp, actual=got,
                           placements=pl, widths=case["widths"])
        results.append(conflict)
    keys = ["drv:legal" if not results[0] else "drv:conflicting-base"]
    mut = mutate(case)[1]
    keys.append("drv:mutation-" + mut)
    if results[1]: keys.append("drv:conflicting")
    if not results[1] and mut != "none": keys.append("drv:near-miss-still-legal")
    if any(p["kind"] == "inst" for p in case["placements"]): keys.append("drv:instance-output")
    if any(p["kind"] == "iob" for p in case["placements"]): keys.append("drv:iobuffer-input")
    if any(p["kind"] == "logic" and p.get("form") in (1, 2) for p in case["placements"]): keys.append("drv:slice-of-sign-reinterpretation")
    if any(w for w in (case.get("wraps") or [])[1:]): keys.append("drv:control-inserter-around-submodule")
    if case.get("implicit_domains") and any(p["kind"] == "logic" and p["dom"] != "comb" for p in case["placements"]):
        keys.append("drv:implicit-domain-with-its-clock-among-the-ports")
    ctx.note(case, mut != "none", *keys, evals=2)


# ------------------------------------------------------------------------------------------ cycles
BITWISE = ["~", "&", "|", "^", "mux", "cat", "rep", "shl", "shr"]
WORD = ["+", "-", "==", "<", "any", "xorr", "shlv", "bsel"]


def draw_expr(draw, widths, depth, prefer=None):
    """Expression over signal bits. prefer: (sig, maxbit) bias towards lower bits of a signal (feed-forward)."""
    k = draw(INT(0, 9)) if depth > 0 else 0
    if k <= 2:
        if draw(INT(0, 5)) == 0:
            w = draw(INT(1, 3))
            return ["const", draw(INT(0, (1 << w) - 1)), w]
        if prefer is not None and draw(INT(0, 2)):
            s, mx = prefer
            if mx > 0:
                lo = draw(INT(0, mx - 1)); hi = draw(INT(lo + 1, mx))
                return ["bits", s, lo, hi]
        s = draw(INT(0, len(widths) - 1))
        lo = draw(INT(0, widths[s] - 1)); hi = draw(INT(lo + 1, widths[s]))
        return ["bits", s, lo, hi]
    sub = lambda: draw_expr(draw, widths, depth - 1, prefer)
    if k <= 6:
        op = PICK(draw, BITWISE)
        if op == "~": return ["~", sub()]
        if op in ("&", "|", "^"): return [op, sub(), sub()]
        if op == "mux": return ["mux", sub(), sub(), sub()]
        if op == "cat": return ["cat", [sub() for _ in range(draw(INT(1, 3)))]]
        if op == "rep": return ["rep", sub(), draw(INT(1, 2))]
        return [op, sub(), draw(INT(0, 2))]
    op = PICK(draw, WORD)
    if op in ("any", "xorr"): return [op, sub()]
    if op == "bsel": return ["bsel", sub(), sub(), draw(INT(1, 2))]
    return [op, sub(), sub()]


def ewidth(e, widths):
    k = e[0]
    if k == "const": return e[2]
    if k == "bits": return e[3] - e[2]
    if k == "~": return ewidth(e[1], widths)
    if k in ("&", "|", "^"): return max(ewidth(e[1], widths), ewidth(e[2], widths))
    if k == "mux": return max(ewidth(e[2], widths), ewidth(e[3], widths))
    if k == "cat": return sum(ewidth(x, widths) for x in e[1])
    if k == "rep": return ewidth(e[1], widths) * e[2]
    if k == "shl": return ewidth(e[1], widths) + e[2]
    if k == "shr": return max(ewidth(e[1], widths) - e[2], 0)
    if k in ("+", "-"): return max(ewidth(e[1], widths), ewidth(e[2], widths)) + 1
    if k in ("==", "<", "any", "xorr"): return 1
    if k == "shlv": return ewidth(e[1], widths) + (1 << min(ewidth(e[2], widths), 3)) - 1
    if k == "bsel": return e[3]
    raise HarnessError(e)


def all_deps(e, widths, coarse):
    out = set()
    for j in range(ewidth(e, widths)):
        out |= deps(e, j, widths, coarse)
    return out


def deps(e, j, widths, coarse):
    """Signal bits that bit j of e structurally depends on (empty beyond the width: zero extension)."""
    k = e[0]
    if j >= ewidth(e, widths) or j < 0:
        return set()
    if k == "const": return set()
    if k == "bits": return {(e[1], e[2] + j)}
    if k == "~": return deps(e[1], j, widths, coarse)
    if k in ("&", "|", "^"): return deps(e[1], j, widths, coarse) | deps(e[2], j, widths, coarse)
    if k == "mux":
        if not coarse and e[1][0] == "const":
            # a constant selector may be folded away: only the selected operand is certain to matter
            return deps(e[2] if e[1][1] else e[3], j, widths, coarse)
        return all_deps(e[1], widths, coarse) | deps(e[2], j, widths, coarse) | deps(e[3], j, widths, coarse)
    if k == "cat":
        for x in e[1]:
            w = ewidth(x, widths)
            if j < w:
                return deps(x, j, widths, coarse)
            j -= w
        return set()
    if k == "rep":
        w = ewidth(e[1], widths)
        return deps(e[1], j % w, widths, coarse) if w else set()
    if k == "shl": return deps(e[1], j - e[2], widths, coarse)
    if k == "shr": return deps(e[1], j + e[2], widths, coarse)
    # word-level operators (constant offsets / amounts may be folded into plain wiring: the precise graph keeps only
    # what is certain in either case)
    if not coarse and k == "bsel" and e[2][0] == "const":
        return deps(e[1], j + e[2][1], widths, coarse)
    if not coarse and k == "shlv" and e[2][0] == "const":
        return deps(e[1], j - (e[2][1] & 7), widths, coarse)
    if coarse or k in ("==", "<", "any", "xorr"):
        out = set()
        for n_, x in enumerate(e[1:]):
            if isinstance(x, list):
                if k == "shlv" and n_ == 1:
                    for i in range(min(3, ewidth(x, widths))):
                        out |= deps(x, i, widths, coarse)
                else:
                    out |= all_deps(x, widths, coarse)
        return out
    if k in ("+", "-"):
        out = set()
        for i in range(j + 1):
            out |= deps(e[1], i, widths, coarse) | deps(e[2], i, widths, coarse)
        return out
    if k == "shlv":
        out = set()
        for i in range(min(3, ewidth(e[2], widths))):       # only the low three bits of the amount are used
            out |= deps(e[2], i, widths, coarse)
        for i in range(j + 1):
            out |= deps(e[1], i, widths, coarse)
        return out
    if k == "bsel":
        out = all_deps(e[2], widths, coarse)
        for i in range(j, ewidth(e[1], widths)):
            out |= deps(e[1], i, widths, coarse)
        return out
    raise HarnessError(e)


def build_expr(e, sigs):
    k = e[0]
    if k == "const": return Const(e[1], e[2])
    if k == "bits": return sigs[e[1]][e[2]:e[3]]
    if k == "~": return ~build_expr(e[1], sigs)
    if k == "&": return build_expr(e[1], sigs) & build_expr(e[2], sigs)
    if k == "|": return build_expr(e[1], sigs) | build_expr(e[2], sigs)
    if k == "^": return build_expr(e[1], sigs) ^ build_expr(e[2], sigs)
    if k == "mux": return Mux(build_expr(e[1], sigs), build_expr(e[2], sigs), build_expr(e[3], sigs))
    if k == "cat": return Cat(*[build_expr(x, sigs) for x in e[1]])
    if k == "rep": return build_expr(e[1], sigs).replicate(e[2])
    if k == "shl": return build_expr(e[1], sigs).shift_left(e[2])
    if k == "shr": return build_expr(e[1], sigs).shift_right(e[2])
    if k == "+": return build_expr(e[1], sigs) + build_expr(e[2], sigs)
    if k == "-": return (build_expr(e[1], sigs) - build_expr(e[2], sigs)).as_unsigned()
    if k == "==": return build_expr(e[1], sigs) == build_expr(e[2], sigs)
    if k == "<": return build_expr(e[1], sigs) < build_expr(e[2], sigs)
    if k == "any": return build_expr(e[1], sigs).any()
    if k == "xorr": return build_expr(e[1], sigs).xor()
    if k == "shlv": return build_expr(e[1], sigs) << build_expr(e[2], sigs)[:3]
    if k == "bsel": return build_expr(e[1], sigs).bit_select(build_expr(e[2], sigs), e[3])
    raise HarnessError(e)


@st.composite
def cycle_cases(draw):
    nsig = draw(INT(2, 4))
    widths = [draw(INT(1, 4)) for _ in range(nsig)]
    owner_mod = [draw(INT(0, 1)) for _ in range(nsig)]
    style = draw(INT(0, 2))      # 0: biased feed-forward (mostly acyclic), 1: free, 2: feed-forward then one back edge
    if draw(INT(0, 5)) == 0:
        # style 3: a loop through ONE output bit of a word-level cell whose other output bits are used elsewhere, with
        # the statements in any order (the traversal may meet the cell through the other bit first)
        wx, wy = draw(INT(2, 4)), draw(INT(2, 3))
        widths = [wx, wy, 1, 2]
        x = ["bits", 0, 0, wx]
        op = PICK(draw, [["bsel", x, ["bits", 3, 0, 2], wy], ["bsel", x, ["const", 0, 1], wy], ["+", x, ["const", 1, 1]],
                         ["-", x, ["bits", 3, 0, 2]], ["shlv", x, ["bits", 3, 0, 2]]])
        j = draw(INT(0, wy - 1))                       # the output bit the loop goes through
        k = PICK(draw, [b for b in range(wy) if b != j])
        i = draw(INT(0, wx - 1)) if op[0] in ("+", "-") and False else 0
        body = [["assign", 1, 0, wy, op],
                ["assign", 2, 0, 1, PICK(draw, [["~", ["bits", 1, k, k + 1]], ["bits", 1, k, k + 1],
                                                 ["^", ["bits", 1, k, k + 1], ["bits", 3, 0, 1]]])],
                ["assign", 0, i, i + 1, ["bits", 1, j, j + 1]]]
        stmts = list(draw(st.permutations(body)))
        return {"widths": widths, "owner_mod": [draw(INT(0, 1)) for _ in widths], "stmts": stmts, "style": 3}
    stmts = []
    def assign(allow_ctrl=True):
        s = draw(INT(0, nsig - 1))
        lo = draw(INT(0, widths[s] - 1)); hi = draw(INT(lo + 1, widths[s]))
        prefer = (s, lo) if style != 1 else None
        if style != 1 and lo == 0 and s > 0:
            prefer = (s - 1, widths[s - 1])
        if style != 1 and lo == 0 and s == 0:
            e = ["const", draw(INT(0, 3)), 2]
        else:
            e = draw_expr(draw, widths, draw(INT(0, 2)), prefer)
            if style != 1:
                e = restrict(e, s, lo)
        return ["assign", s, lo, hi, e]
    def restrict(e, s, lo):
        """Feed-forward bias: only signals < s, or bits < lo of s itself."""
        if e[0] == "bits":
            if e[1] > s or (e[1] == s and e[3] > lo):
                if lo > 0:
                    return ["bits", s, 0, lo]
                if s > 0:
                    return ["bits", s - 1, 0, widths[s - 1]]
                return ["const", 1, 1]
            return e
        return [e[0]] + [restrict(x, s, lo) if isinstance(x, list) and x and isinstance(x[0], str)
                         else ([restrict(y, s, lo) for y in x] if isinstance(x, list) else x) for x in e[1:]]
    for _ in range(draw(INT(1, 5))):
        k = draw(INT(0, 4))
        if k <= 2:
            stmts.append(assign())
        elif k == 3:
            arms = []
            for _ in range(draw(INT(1, 3))):
                a = assign()
                cond = draw_expr(draw, widths, 1, None)
                if style != 1:
                    cond = restrict(cond, a[1], a[2])
                arms.append([cond, [a]])
            els = [assign()] if draw(BOOL) else None
            if style != 1 and els is not None:
                # all tests of the chain guard the Else
                els = None
            stmts.append(["if", arms, els])
        else:
            a = assign()
            test = draw_expr(draw, widths, 1, None)
            if style != 1:
                test = restrict(test, a[1], a[2])
            stmts.append(["switch", test, [[draw(INT(0, 3)), [a]]]])
    if style == 2:
        # one deliberate back edge through another signal or a condition
        s = draw(INT(0, nsig - 1))
        t = draw(INT(0, nsig - 1))
        lo = draw(INT(0, widths[s] - 1))
        src = ["bits", t, 0, widths[t]]
        e = src if draw(BOOL) else PICK(draw, [["+", src, ["const", 1, 1]], ["~", src], ["any", src], ["^", src, src]])
        if draw(BOOL):
            stmts.append(["assign", s, lo, lo + 1, e])
        else:
            stmts.append(["if", [[e, [["assign", s, lo, lo + 1, ["const", 1, 1]]]]], None])
    # module placement must not create driver conflicts: a signal's assignments all go to its owner module
    return {"widths": widths, "owner_mod": owner_mod, "stmts": stmts, "style": style}


def graph_edges(case, coarse):
    widths = case["widths"]
    edges = {}
    def add(s, lo, hi, e, conds, top_level):
        for b in range(lo, hi):
            d = deps(e, b - lo, widths, coarse) | conds
            if top_level and not coarse:
                # an unconditional assignment overrides everything assigned to this bit before it
                edges[(s, b)] = set(d)
            else:
                edges.setdefault((s, b), set()).update(d)
    def walk(stmts, conds, top_level=False):
        for st_ in stmts:
            if st_[0] == "assign":
                add(st_[1], st_[2], min(st_[3], widths[st_[1]]), st_[4], conds, top_level)
            elif st_[0] == "if":
                tests = [all_deps(c, widths, coarse) for c, _ in st_[1]]
                allt = set().union(*tests) if tests else set()
                for i, (c, body) in enumerate(st_[1]):
                    upto = set().union(*tests[:i + 1])
                    walk(body, conds | (allt if coarse else upto))
                if st_[2] is not None:
                    walk(st_[2], conds | allt)
            elif st_[0] == "switch":
                t = all_deps(st_[1], widths, coarse)
                for _, body in st_[2]:
                    walk(body, conds | t)
    walk(case["stmts"], set(), top_level=True)
    return edges


def find_cycle(edges):
    WHITE, GREY, BLACK = 0, 1, 2
    color = {}
    sigs_in_cycle = [None]
    def dfs(n, stack):
        color[n] = GREY
        stack.append(n)
        for m in edges.get(n, ()):
            c = color.get(m, WHITE)
            if c == GREY:
                sigs_in_cycle[0] = {x[0] for x in stack[stack.index(m):]}
                return True
            if c == WHITE and dfs(m, stack):
                return True
        stack.pop()
        color[n] = BLACK
        return False
    for n in sorted(edges):
        if color.get(n, WHITE) == WHITE and dfs(n, []):
            return sigs_in_cycle[0]
    return None


def intra_feed(edges):
    return any(any(m[0] == n[0] and m != n for m in d) for n, d in edges.items())


def build_cycles(case):
    widths = case["widths"]
    sigs = [Signal(w, name=f"s{i}") for i, w in enumerate(widths)]
    top, sub = Module(), Module()
    top.submodules.sub = sub
    mods = [top, sub]
    def emit(stmts):
        for st_ in stmts:
            if st_[0] == "assign":
                m = mods[case["owner_mod"][st_[1]]]
                m.d.comb += sigs[st_[1]][st_[2]:st_[3]].eq(build_expr(st_[4], sigs))
            elif st_[0] == "if":
                # every body of one chain holds a single assignment; the chain lives in that signal's module only if
                # all its targets share it -- otherwise each arm is emitted as its own If in its own module
                tmods = {case["owner_mod"][b[0][1]] for _, b in st_[1]} | ({case["owner_mod"][st_[2][0][1]]} if st_[2] else set())
                if len(tmods) == 1:
                    m = mods[tmods.pop()]
                    for i, (c, body) in enumerate(st_[1]):
                        ctx_ = m.If(build_expr(c, sigs)) if i == 0 else m.Elif(build_expr(c, sigs))
                        with ctx_:
                            a = body[0]
                            m.d.comb += sigs[a[1]][a[2]:a[3]].eq(build_expr(a[4], sigs))
                    if st_[2] is not None:
                        with m.Else():
                            a = st_[2][0]
                            m.d.comb += sigs[a[1]][a[2]:a[3]].eq(build_expr(a[4], sigs))
                else:
                    return False
            elif st_[0] == "switch":
                a = st_[2][0][1][0]
                m = mods[case["owner_mod"][a[1]]]
                with m.Switch(build_expr(st_[1], sigs)):
                    with m.Case(st_[2][0][0] % (1 << max(ewidth(st_[1], widths), 1)) if ewidth(st_[1], widths) else 0):
                        m.d.comb += sigs[a[1]][a[2]:a[3]].eq(build_expr(a[4], sigs))
        return True
    ok = emit(case["stmts"])
    return (top if ok else None), sigs


def cycle_body(ctx, case):
    with warnings.catch_warnings():
        warnings.simplefilter("ignore")
        top, sigs = build_cycles(case)
        if top is None:
            ctx.tally("cyc:skipped-chain-across-modules"); return
        precise = find_cycle(graph_edges(case, coarse=False))
        coarse = find_cycle(graph_edges(case, coarse=True))
        try:
            rtlil.convert(top, ports=sigs)
            got = "accepted"
        except CombinationalCycle:
            got = "CombinationalCycle"
    if precise is not None and got != "CombinationalCycle":
        raise Mismatch("cycle-not-rejected", actual=got, signals_in_cycle=sorted(precise), case=case)
    if coarse is None and got != "accepted":
        raise Mismatch("acyclic-design-rejected", actual=got, case=case)
    keys = []
    feed = intra_feed(graph_edges(case, coarse=False))
    if coarse is None:
        keys.append("cyc:acyclic")
        if feed: keys.append("cyc:acyclic-with-intra-signal-feeding")
    elif precise is not None:
        keys.append("cyc:cyclic")
        if len(precise) >= 2: keys.append("cyc:cycle-through>=2-signals")
        if any(s[0] in ("if", "switch") for s in case["stmts"]): keys.append("cyc:with-conditions")
    else:
        keys.append("cyc:granularity-gap-not-judged")
    if any(m for m in case["owner_mod"]): keys.append("cyc:two-modules")
    ctx.note(case, (coarse is None and feed) or (precise is not None and len(precise) >= 2), *keys, evals=1)


# ------------------------------------------------------------------------------------------ loop shapes (enumerated)
# Loops that close through something other than a right-hand side: (a) a condition that is NOT the innermost one around
# the assignment (If or Switch at any of up to three levels, the other levels testing inputs), with the legal
# counterpart that tests a neighbouring, unassigned bit of the same signal; (b) the asynchronous reset of a domain
# computed from a register of that very domain (the register follows its reset without a clock edge), with the legal
# counterparts: a synchronous reset computed the same way, and an asynchronous reset computed from another domain.
def shape_cases(ctx):
    import itertools
    if ctx.shard != 0:
        return
    for depth in (2, 3):
        for pos in range(depth):
            for kinds in itertools.product("is", repeat=depth):
                for via in (0, 1, 2):
                    for legal in (False, True):
                        for sub in (0, 1):
                            yield ["nested", depth, pos, "".join(kinds), via, legal, sub]
    for how in (0, 1, 2, 3):
        for variant in ("async-own", "sync-own", "async-other"):
            for sub in (0, 1):
                yield ["arst", how, variant, sub]


def shape_body(ctx, case):
    with warnings.catch_warnings():
        warnings.simplefilter("ignore")
        top, inner = Module(), Module()
        top.submodules.inner = inner
        if case[0] == "nested":
            _, depth, pos, kinds, via, legal, sub = case
            m = inner if sub else top
            x = Signal(3, name="x"); t = Signal(2, name="t"); ins = [Signal(2, name=f"i{k}") for k in range(depth)]
            b = 1
            tested = x[2] if legal else x[b]
            if via == 1:
                m.d.comb += t[0].eq(~tested); tested = t[0]
            elif via == 2:
                tested = tested ^ ins[0][1]
            import contextlib
            with contextlib.ExitStack() as stack:
                for lvl in range(depth):
                    c = tested if lvl == pos else ins[lvl][0]
                    if kinds[lvl] == "i":
                        stack.enter_context(m.If(c))
                    else:
                        stack.enter_context(m.Switch(c)); stack.enter_context(m.Case(1))
                m.d.comb += x[b].eq(ins[depth - 1][1])
            ports = [x] + ins
            cyclic = not legal
            key = f"shape:condition-{'outermost' if pos == 0 else 'innermost' if pos == depth - 1 else 'middle'}"
        else:
            _, how, variant, sub = case
            from amaranth.hdl import ClockDomain
            m = inner if sub else top
            cd = ClockDomain("cd", async_reset=variant != "sync-own")
            other = ClockDomain("other")
            top.domains += [cd, other]
            r = Signal(3, name="r"); o = Signal(3, name="o"); en = Signal(name="en")
            m.d.cd += r.eq(r + 1)
            m.d.other += o.eq(o + 1)
            src = o if variant == "async-other" else r
            e = [src[0], src.any(), src == 5, en & src[2]][how]
            top.d.comb += cd.rst.eq(e)
            ports = [cd.clk, other.clk, other.rst, r, o, en]
            cyclic = variant == "async-own"
            key = f"shape:reset-{variant}"
        try:
            rtlil.convert(top, ports=ports)
            got = "accepted"
        except CombinationalCycle:
            got = "CombinationalCycle"
    if cyclic and got != "CombinationalCycle":
        raise Mismatch("cycle-not-rejected", actual=got, shape=case)
    if not cyclic and got != "accepted":
        raise Mismatch("acyclic-design-rejected", actual=got, shape=case)
    ctx.note_bulk(1, 1, {"shape": case, "outcome": got}, key, "shape:cyclic" if cyclic else "shape:legal")


def parts(tier):
    q = tier == "quick"
    return [
        Part("drivers", "hyp", strategy=driver_cases(), body=driver_body, n=700 if q else 6000),
        Part("cycles", "hyp", strategy=cycle_cases(), body=cycle_body, n=800 if q else 8000),
        Part("shapes", "enum", cases=shape_cases, body=shape_body, exhaustive=True),
    ]


REQUIRED = ["drv:legal", "drv:conflicting", "drv:near-miss-still-legal", "drv:instance-output", "drv:iobuffer-input",
            "drv:mutation-grow", "drv:mutation-move-module", "drv:mutation-move-domain", "drv:mutation-overlap-inst",
            "drv:mutation-second-inst", "drv:slice-of-sign-reinterpretation", "drv:control-inserter-around-submodule",
            "drv:implicit-domain-with-its-clock-among-the-ports", "cyc:acyclic", "cyc:acyclic-with-intra-signal-feeding", "cyc:cyclic",
            "cyc:cycle-through>=2-signals", "cyc:with-conditions", "cyc:two-modules",
            "shape:condition-outermost", "shape:condition-middle", "shape:condition-innermost", "shape:reset-async-own",
            "shape:reset-sync-own", "shape:reset-async-other", "shape:cyclic", "shape:legal"]
