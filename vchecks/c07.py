"""C07 — Every emitted RTLIL document is structurally well-formed."""
import warnings
from hypothesis import strategies as st

from amaranth.hdl import (Module, Signal, Const, Cat, ClockDomain, ClockSignal, Instance, IOPort, IOBufferInstance, Fragment,
                          signed, unsigned)
from amaranth.lib.memory import Memory
from amaranth.lib import data as am_data, wiring
from amaranth.lib.wiring import In, Out
from amaranth.back import rtlil

from vlib.runner import Part, Mismatch, HarnessError
from vlib.gen_expr import INT, BOOL, PICK
from vlib import rtlil_read as RR, rtlil_check as RC, simorder
from vchecks import c04

PID = "C07"
LEVEL = "exploration"
RULE = ("soup: Hypothesis generates hierarchies built to stress naming and port inference: signals whose names come from a "
        "pool of four (so several signals, ports and submodules share a name, incl. names like `clk`), private (empty) "
        "names, zero-width signals, unused signals listed as ports, empty and nested-empty submodules in every position "
        "among non-empty siblings, anonymous submodules, structural-only intermediate modules, signals driven in one "
        "leaf and read in a leaf of another branch (routed through two intermediate modules), memories, I/O ports (auto "
        "added, same-named, shared between modules) with I/O buffer instances, and foreign instances with p_/a_/i_/o_/io_ "
        "arguments, signals of struct / array shape sharing names (ints beyond 2^31 and below -2^31, negative ints, strings with quotes, backslashes, newlines and "
        "tabs, floats, signed and unsigned Const). trees: C04's generated designs. components: wiring.Component objects with "
        "generated signatures (arrayed members, nested and arrayed nested signatures) converted without a port list - the "
        "top module's ports must be exactly the flattened members with their directions and widths. Every emitted document is parsed by "
        "the independent reader and must satisfy the validity predicate of vlib/rtlil_check.py: grammar; every "
        "referenced wire/memory/module exists; unique names per module; equal widths on both sides of every connect, "
        "process assign and cell port versus its width parameter; slices within bounds; port indices unique and dense; "
        "every wire bit that is not a bidirectional pad has exactly one driver and inputs none inside; submodule cells "
        "connect exactly the declared ports with matching widths; every module is instantiated; foreign instances carry "
        "exactly the given type, parameters (value and signedness), attributes and connection widths (compared with the "
        "descriptor). Non-trivial: >=2 emitted modules, or a name clash, or an instance. Distinct by canonical hash.")
ASSUMPTIONS = [
    "Names are drawn from [A-Za-z0-9_]; names with whitespace are not generated (no escaping contract is documented).",
    "Constants with more or fewer digits than their width are read the way the reference reader reads them (extended / truncated), not flagged.",
]
QUICK_SHARDS = 4
THOROUGH_SHARDS = 16

NAMES = ["x", "clk", "sub", "a"]
STRS = ["", "plain", 'quote"inside', "back\\slash", "new\nline", "tab\there", "{brace}", "ünï", "'single'", "a b  c"]


@st.composite
def soups(draw):
    nleaf = draw(INT(2, 4))
    leaves = []
    for i in range(nleaf):
        leaves.append({"w": draw(st.one_of(INT(0, 1), INT(1, 5))), "name": PICK(draw, NAMES + [""]),
                       "dom": PICK(draw, ["comb", "sync", "comb"]), "reads": draw(INT(0, nleaf - 1)),
                       "anon": draw(BOOL), "mem": draw(INT(0, 3)) == 0, "pad": draw(INT(0, 3)) == 0,
                       "branch": draw(INT(0, 1)), "agg": PICK(draw, [None, None, "struct", "array"])})
    inst = None
    if draw(INT(0, 1)):
        big = draw(st.one_of(st.sampled_from([2 ** 31 - 1, 2 ** 31, 2 ** 40 + 5, -1, -5, -2 ** 31, -2 ** 31 - 1, -2 ** 33 - 7, -2 ** 63 + 1]),
                             INT(-2 ** 70, 2 ** 70)))
        inst = {"ints": {"P_A": big, "P_B": draw(INT(-40, 40)), "P_ZERO": 0},
                "strs": {"P_S": PICK(draw, STRS), "P_T": PICK(draw, STRS)},
                "floats": {"P_F": PICK(draw, [1.5, -0.25, 1e30, 0.0])},
                "consts": {"P_C": [draw(INT(0, 7)), 3, False], "P_D": [draw(INT(-4, 3)), 3, True], "P_E": [0, 0, False]},
                # (an attribute may be called src, like the one the back end adds itself: the given value stands)
                "attrs": {"keep": 1, "note": PICK(draw, STRS), "neg": draw(INT(-9, -1)),
                          **({"src": PICK(draw, STRS)} if draw(INT(0, 2)) == 0 else {})},
                "in_w": draw(INT(0, 4)), "out_w": draw(INT(1, 4)), "io_w": draw(INT(0, 2)), "where": draw(INT(0, nleaf - 1)),
                "name": PICK(draw, [None, "u_ext", "x"])}
    return {"leaves": leaves, "inst": inst,
            "empties": [draw(INT(0, 3)) for _ in range(draw(INT(0, 3)))],      # positions of empty submodules
            "nested_empty": draw(BOOL), "unused_ports": draw(INT(0, 2)), "zero_port": draw(BOOL),
            "same_pad_names": draw(BOOL), "list_pads": draw(BOOL), "top_sig_name": PICK(draw, NAMES)}


def build_soup(desc):
    top = Module()
    top.domains.sync = ClockDomain()
    branches = [Module(), Module()]          # structural intermediates: no logic of their own
    mids = [Module(), Module()]
    outs, pads, insts = [], [], []
    leaf_mods, leaf_sigs = [], []
    for i, lf in enumerate(desc["leaves"]):
        m = Module()
        kw = {"name": lf["name"]} if lf["name"] != "" else {"name": ""}
        if lf.get("agg") and lf["w"] >= 2:
            # a signal with an aggregate shape (the back end emits a wire per field next to it, named after the signal)
            shape = (am_data.StructLayout({"x": 1, "y": lf["w"] - 1}) if lf["agg"] == "struct" else
                     am_data.ArrayLayout(1, lf["w"]))
            s = Signal(shape, **kw).as_value()
        else:
            s = Signal(lf["w"], **kw)
        leaf_mods.append(m); leaf_sigs.append(s)
    inp = Signal(4, name=desc["top_sig_name"])
    for i, lf in enumerate(desc["leaves"]):
        m, s = leaf_mods[i], leaf_sigs[i]
        src = leaf_sigs[lf["reads"]] if lf["reads"] != i else inp
        if lf["dom"] == "comb" and lf["reads"] > i:
            src = inp           # combinational leaves only read earlier leaves (no loops)
        if lf["dom"] == "comb":
            m.d.comb += s.eq(src + inp)
        else:
            m.d.sync += s.eq(s + src)
        if lf["mem"]:
            mem = Memory(shape=3, depth=2, init=[1])
            wp = mem.write_port(); rp = mem.read_port(domain="comb")
            m.submodules.mem = mem
            m.d.comb += [wp.addr.eq(inp[0]), wp.data.eq(inp[:3]), wp.en.eq(inp[3]), rp.addr.eq(inp[1])]
            o = Signal(3, name=lf["name"] or "memo")
            m.d.comb += o.eq(rp.data)
            outs.append(o)
        if lf["pad"]:
            pname = "pad" if desc["same_pad_names"] else f"pad{i}"
            port = IOPort(2, name=pname)
            pi = Signal(2, name="pi")
            m.submodules += IOBufferInstance(port, i=pi, o=s[:2] if lf["w"] >= 2 else Const(1, 2), oe=inp[0])
            pads.append(port)
            outs.append(pi)
        if lf["name"] != "":
            outs.append(s)        # (signals with private names cannot be listed as unnamed top-level ports)
    ins = desc["inst"]
    foreign = {}
    if ins is not None:
        m = leaf_mods[ins["where"]]
        a = Signal(ins["in_w"], name="ia"); q = Signal(ins["out_w"], name="oq")
        iop = IOPort(ins["io_w"], name="iopad")
        kw = {}
        for k, v in ins["ints"].items(): kw["p_" + k] = v
        for k, v in ins["strs"].items(): kw["p_" + k] = v
        for k, v in ins["floats"].items(): kw["p_" + k] = v
        for k, (v, w, sg) in ins["consts"].items(): kw["p_" + k] = Const(v, signed(w) if sg else unsigned(w))
        for k, v in ins["attrs"].items(): kw["a_" + k] = v
        cell = Instance("ext_cell", i_a=a, o_q=q, io_pad=iop, i_c=ClockSignal(), **kw)
        if ins["name"] is None:
            m.submodules += cell
        else:
            setattr(m.submodules, ins["name"], cell)
        m.d.comb += a.eq(inp)
        outs.append(q)
        pads.append(iop)
        foreign["\\ext_cell"] = {"ports": {"\\a": "i", "\\q": "o", "\\pad": "io", "\\c": "i"}}
    # hierarchy: top -> branch{0,1} -> mid{0,1} -> leaves; empty modules sprinkled in
    for i, lf in enumerate(desc["leaves"]):
        parent = mids[lf["branch"]]
        if lf["anon"]:
            parent.submodules += leaf_mods[i]
        else:
            nm = lf["name"] or f"leaf{i}"
            if nm in getattr(parent, "_named_submodules", {}):
                parent.submodules += leaf_mods[i]
            else:
                setattr(parent.submodules, nm, leaf_mods[i])
    for pos in desc["empties"]:
        tgt = [top, branches[0], mids[1], mids[0]][pos]
        e = Module()
        if desc["nested_empty"]:
            e.submodules.inner = Module()
        tgt.submodules += e                 # added after (or among) the non-empty ones
    branches[0].submodules.mid = mids[0]
    branches[1].submodules.mid = mids[1]
    top.submodules.b0 = branches[0]
    top.submodules.sub = branches[1]        # a submodule named like signals
    ports = [inp] + outs
    for k in range(desc["unused_ports"]):
        ports.append(Signal(2, name=PICK_NAME(k)))
    if desc["zero_port"]:
        ports.append(Signal(0, name="zw"))
    if desc["list_pads"] and not desc["same_pad_names"]:
        ports += pads
    return top, ports, foreign


def PICK_NAME(k):
    return ["unused", "x", "clk"][k % 3]


def decode_param(cell, name):
    kind = cell.params[name]
    sg = cell.param_signed.get(name, False)
    if kind[0] == "int":
        return ("int", kind[1])
    if kind[0] == "bits":
        v = int(kind[1] or "0", 2)
        if sg and kind[1] and kind[1][0] == "1":
            v -= 1 << len(kind[1])
        return ("bits", v, len(kind[1]), sg)
    return kind


def check_instance(design, desc):
    ins = desc["inst"]
    cells = [(m, c) for m in design.modules.values() for c in m.cells if c.type == "\\ext_cell"]
    if len(cells) != 1:
        raise Mismatch("foreign-instance-count", expected=1, actual=len(cells))
    mod, cell = cells[0]
    if ins["name"] is not None and not (cell.name == "\\" + ins["name"] or cell.name.startswith("\\" + ins["name"] + "$")):
        raise Mismatch("instance-name", expected=ins["name"], actual=cell.name)
    want = set()
    for k, v in ins["ints"].items():
        want.add("\\" + k)
        got = decode_param(cell, "\\" + k)
        val = got[1]
        if val != v:
            raise Mismatch("instance-int-parameter", name=k, expected=v, actual=repr(got),
                           raw=repr(cell.params["\\" + k]), signed_flag=cell.param_signed.get("\\" + k))
    for k, v in ins["strs"].items():
        want.add("\\" + k)
        got = cell.params["\\" + k]
        if got != ("str", v):
            raise Mismatch("instance-string-parameter", name=k, expected=v, actual=repr(got))
    for k, v in ins["floats"].items():
        want.add("\\" + k)
        got = cell.params["\\" + k]
        if got[0] != "real" or got[1] != v:
            raise Mismatch("instance-real-parameter", name=k, expected=v, actual=repr(got))
    for k, (v, w, sg) in ins["consts"].items():
        want.add("\\" + k)
        got = decode_param(cell, "\\" + k)
        if got[0] != "bits" or got[1] != v or got[2] != w or bool(got[3]) != (sg and v < 0 or sg):
            if not (got[0] == "bits" and got[1] == v and got[2] == w):
                raise Mismatch("instance-const-parameter", name=k, expected=[v, w, sg], actual=repr(got))
    if set(cell.params) != want:
        raise Mismatch("instance-parameter-set", expected=sorted(want), actual=sorted(cell.params))
    for k, v in ins["attrs"].items():
        got = cell.attrs.get("\\" + k)
        if got is None:
            raise Mismatch("instance-attribute-missing", name=k)
        if isinstance(v, str):
            ok = got == ("str", v)
        else:
            dv = got[1] if got[0] == "int" else (int(got[1], 2) - ((1 << len(got[1])) if got[1][:1] == "1" and v < 0 else 0))
            ok = dv == v
        if not ok:
            raise Mismatch("instance-attribute", name=k, expected=v, actual=repr(got))
    widths = {"\\a": ins["in_w"], "\\q": ins["out_w"], "\\pad": ins["io_w"], "\\c": 1}
    if set(cell.conns) != set(widths):
        raise Mismatch("instance-ports", expected=sorted(widths), actual=sorted(cell.conns))
    for pn, w in widths.items():
        if len(cell.conns[pn]) != w:
            raise Mismatch("instance-port-width", port=pn, expected=w, actual=len(cell.conns[pn]))


def validate(text, foreign, what, case):
    try:
        design = RR.parse(text)
    except (RR.RTLILSyntaxError, RR.UnknownWire, RR.SliceOutOfBounds) as e:
        raise Mismatch("rtlil-does-not-parse", what=what, error=str(e)[:400])
    problems = RC.check(design, foreign=foreign)
    if problems:
        raise Mismatch("rtlil-not-well-formed", what=what, problems=problems[:6], count=len(problems))
    return design


def soup_body(ctx, desc):
    with warnings.catch_warnings():
        warnings.simplefilter("ignore")
        top, ports, foreign = build_soup(desc)
        text = rtlil.convert(top, ports=ports)
    design = validate(text, foreign, "soup", desc)
    if desc["inst"] is not None:
        check_instance(design, desc)
    names = [lf["name"] for lf in desc["leaves"]] + [desc["top_sig_name"]]
    keys = ["soup:design"]
    if len(design.modules) >= 2: keys.append("soup:>=2-modules")
    if len(set(names)) < len(names): keys.append("soup:name-clash")
    if "" in names: keys.append("soup:private-name")
    if desc["inst"] is not None: keys.append("soup:instance")
    if desc["inst"] is not None and abs(desc["inst"]["ints"]["P_A"]) >= 2 ** 31: keys.append("soup:wide-int-parameter")
    if desc["inst"] is not None and desc["inst"]["ints"]["P_A"] < -2 ** 31: keys.append("soup:int-parameter-below--2^31")
    if desc["empties"]: keys.append("soup:empty-submodule")
    if any(lf["pad"] for lf in desc["leaves"]): keys.append("soup:io-buffers")
    if desc["same_pad_names"] and sum(lf["pad"] for lf in desc["leaves"]) >= 2: keys.append("soup:same-named-io-ports")
    if any(lf["mem"] for lf in desc["leaves"]): keys.append("soup:memory")
    if any(lf["w"] == 0 for lf in desc["leaves"]) or desc["zero_port"]: keys.append("soup:zero-width")
    if any(desc["leaves"][lf["reads"]]["branch"] != lf["branch"] for lf in desc["leaves"]): keys.append("soup:routed-across-branches")
    aggs = [lf["name"] for lf in desc["leaves"] if lf.get("agg") and lf["w"] >= 2]
    if aggs: keys.append("soup:aggregate-shaped-signal")
    if len(set(aggs)) < len(aggs): keys.append("soup:aggregate-shaped-signals-sharing-a-name")
    ctx.note(desc, len(design.modules) >= 2 or "soup:name-clash" in keys or desc["inst"] is not None, *keys, evals=1)


# ------------------------------------------------------------------------------------------ components
@st.composite
def components(draw):
    """A wiring.Component converted without an explicit port list: the ports come from its signature."""
    def members(depth):
        out = []
        for i in range(draw(INT(1, 3))):
            dims = [draw(INT(1, 2)) for _ in range(draw(INT(0, 2)))]
            if depth > 0 and draw(INT(0, 2)) == 0:
                out.append({"name": f"m{i}", "flow": PICK(draw, ["in", "out"]), "dims": dims, "sig": members(depth - 1)})
            else:
                out.append({"name": f"m{i}", "flow": PICK(draw, ["in", "out"]), "dims": dims, "w": draw(INT(0, 4)),
                            "signed": draw(BOOL)})
        return out
    return {"members": members(2)}


def _signature(ms):
    d = {}
    for mm in ms:
        desc = _signature(mm["sig"]) if "sig" in mm else (signed(mm["w"]) if mm["signed"] and mm["w"] else unsigned(mm["w"]))
        mem = (In if mm["flow"] == "in" else Out)(desc)
        if mm["dims"]:
            mem = mem.array(*mm["dims"])
        d[mm["name"]] = mem
    return wiring.Signature(d)


def component_body(ctx, case):
    with warnings.catch_warnings():
        warnings.simplefilter("ignore")
        sig = _signature(case["members"])

        class Comp(wiring.Component):
            def __init__(self):
                super().__init__(sig)

            def elaborate(self, platform):
                m = Module()
                leaves = [(path, fl, v) for path, fl, v in self.signature.flatten(self)]
                ins = [v for _, fl, v in leaves if fl.flow == wiring.In]
                acc = Cat(*ins) if ins else Const(0, 1)
                for _, fl, v in leaves:
                    if fl.flow == wiring.Out:
                        m.d.comb += v.eq(acc)
                return m
        comp = Comp()
        expected = {"__".join(map(str, path)): ("input" if fl.flow == wiring.In else "output", len(v))
                    for path, fl, v in sig.flatten(comp)}
        text = rtlil.convert(comp)
    design = validate(text, {}, "component", case)
    top = [m for m in design.modules.values() if "\\top" in m.attrs]
    if len(top) != 1:
        raise Mismatch("component-top-module", count=len(top))
    got = {w.name.lstrip("\\"): (w.port_kind, w.width) for w in top[0].wires.values() if w.port_kind}
    want = {k: v for k, v in expected.items() if v[1] > 0}
    got = {k: v for k, v in got.items() if v[1] > 0}
    if got != want:
        raise Mismatch("component-ports", expected={k: list(v) for k, v in sorted(want.items())},
                       actual={k: list(v) for k, v in sorted(got.items())})
    keys = ["comp:design"]
    def walk(ms, depth=0):
        for mm in ms:
            if mm["dims"]: keys.append("comp:arrayed-member")
            if "sig" in mm:
                keys.append("comp:nested-signature")
                if mm["dims"]: keys.append("comp:arrayed-nested-signature")
                walk(mm["sig"], depth + 1)
    walk(case["members"])
    ctx.note(case, "comp:arrayed-member" in keys, *sorted(set(keys)), evals=1)


def tree_body(ctx, case):
    simorder.set_policy(None)
    with warnings.catch_warnings():
        warnings.simplefilter("ignore")
        top, cds, ctls, elabs, links = c04.build(case)
        ports = list(ctls)
        for e in elabs:
            ports += [e.b.sigs[k] for k in case["tree"]["nodes"][elabs.index(e)]["prog"]["inputs"]]
            ports.append(e.split_in)
            ports.append(e.split)
        for d in ("sync", "b", "c"):
            ports.append(cds[d].clk)
            if cds[d].rst is not None:
                ports.append(cds[d].rst)
        ports += links
        text = rtlil.convert(top, ports=ports)
    design = validate(text, {}, "tree", None)
    keys = ["tree:design"]
    if len(design.modules) >= 3: keys.append("tree:>=3-modules")
    if any(m.memories for m in design.modules.values()): keys.append("tree:memory")
    ctx.note(case, len(design.modules) >= 2, *keys, evals=1)


def parts(tier):
    q = tier == "quick"
    return [
        Part("soup", "hyp", strategy=soups(), body=soup_body, n=300 if q else 5000),
        Part("trees", "hyp", strategy=c04.cases(1 if q else 2, 2), body=tree_body, n=60 if q else 1000),
        Part("components", "hyp", strategy=components(), body=component_body, n=60 if q else 1000),
    ]


REQUIRED = ["soup:>=2-modules", "soup:name-clash", "soup:private-name", "soup:instance", "soup:wide-int-parameter",
            "soup:int-parameter-below--2^31", "soup:empty-submodule", "soup:io-buffers", "soup:same-named-io-ports",
            "soup:memory", "soup:zero-width", "soup:routed-across-branches", "tree:>=3-modules", "tree:memory",
            "soup:aggregate-shaped-signal", "soup:aggregate-shaped-signals-sharing-a-name", "comp:arrayed-member",
            "comp:nested-signature", "comp:arrayed-nested-signature"]
