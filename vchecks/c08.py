"""C08 — Simulation results do not depend on process scheduling order."""
import warnings
from hypothesis import strategies as st

from amaranth.hdl import Cat, Module, ClockDomain, Signal, Period, Value, Shape
from amaranth.sim import Simulator

from vlib.runner import Part, Mismatch, HarnessError
from vlib.gen_expr import INT, BOOL, PICK, value_of_shape
from vlib.gen_prog import ProgGen, build_program
from vlib import refsem as R
from vlib import simorder

PID = "C08"
LEVEL = "exploration"
RULE = ("perm: Hypothesis generates a design (a generated control-flow program with comb and two clock domains in one "
        "fragment, an observer sub-fragment with comb/sync logic over the program's signals, 0..2 user processes written "
        "in the simulator guide's idioms: a `changed()` adder and a `tick().sample()` counter), clocks with arbitrary "
        "even-femtosecond periods and explicit or default phases (incl. equal periods so that edges coincide), and "
        "1..3 testbenches whose scripts are sequences of set / get / tick / tick().sample / tick().repeat / delay / "
        "posedge / negedge / changed, each owning its inputs. The whole simulation is executed under K scheduler "
        "orders injected from the harness (insertion order, reversed, rotating, K-3 seeded shuffles re-drawn at every "
        "iteration of the simulator's process / pending / trigger sets): the complete observation log of every "
        "testbench (op index, elapsed femtoseconds, sampled and read values) and the final value of every signal must "
        "be identical. timing: every wake-up time is compared with an integer-femtosecond model (clock toggles at "
        "phase + k*period/2, default phase = period/2, delays expire after exactly the interval). single: one "
        "testbench against the reference interpreter: ctx.get after ctx.set sees settled combinational logic across "
        "fragments, tick().sample() returns the values from just before the edge (also for registers of another domain "
        "ticking in the same instant) and ctx.get afterwards the updated registers. lockstep: k testbenches awaiting "
        "the same tick append to a shared log; entries at each instant appear in the order the testbenches were "
        "added. replace: a circuit and the guide's process replacing it give identical observations. handoff: writer "
        "testbenches set flags at generated instants, observer testbenches await changed / posedge / negedge of a flag; "
        "every observer wakes in the instant of the write for every order of add_testbench calls, with writers that "
        "return right after their last write or carry on. Non-trivial: "
        "some iteration had >=2 runnable processes AND two orders differed in the sequence in which they ran. Distinct "
        "by canonical hash of the case.")
ASSUMPTIONS = [
    "Clock periods are even numbers of femtoseconds; delays never expire in the same instant as a clock toggle "
    "(the generator computes the timeline), because the order of a delay expiry and an edge at one instant is not documented.",
    "Testbenches share no Python state except the append-only log; each input is written by one testbench only; processes use only the documented race-free idioms.",
    "Scheduler orders are injected by rebinding `set` in the simulator modules to an ordered subclass (vlib/simorder.py); if the engine stops using it the check exits 2.",
]
QUICK_SHARDS = 4
THOROUGH_SHARDS = 16
DOMS = ("a", "b")


# ------------------------------------------------------------------------------------------ clocks / timeline
def draw_clocks(draw, min_half=1):
    """Half-periods stay within a factor of ~30 of each other so that a run is a few thousand toggles at most."""
    cfg = {}
    unit = PICK(draw, [1, 5, 500, 5 * 10 ** 5, 3, 7, 10 ** 9])
    for d in DOMS:
        if cfg and draw(INT(0, 2)) == 0:
            half = next(iter(cfg.values()))["half"] * PICK(draw, [1, 1, 2, 3])
        else:
            half = max(unit * draw(INT(1, 9)), min_half)
        phase = None if draw(INT(0, 2)) == 0 else PICK(draw, [0, half, 1, half * 2, draw(INT(0, 3 * half))])
        if cfg and draw(BOOL):
            first = next(iter(cfg.values()))
            if half % first["half"] == 0:
                phase = first["half"] if first["phase"] is None else first["phase"]      # edges coincide
        # (the reset is never asserted here, so whether it is synchronous or asynchronous must not show anywhere)
        cfg[d] = {"half": half, "phase": phase, "edge": "neg" if draw(INT(0, 4)) == 0 else "pos",
                  "async": draw(INT(0, 2)) == 0}
    return cfg


class Timeline:
    def __init__(self, cfg):
        self.cfg = cfg

    def phase(self, d):
        c = self.cfg[d]
        return c["half"] if c["phase"] is None else c["phase"]

    def toggles(self, t):
        """{domain: new level} for clocks toggling at instant t."""
        out = {}
        for d, c in self.cfg.items():
            p = self.phase(d)
            if t >= p and (t - p) % c["half"] == 0:
                out[d] = 1 - ((t - p) // c["half"]) % 2
        return out

    def next_after(self, t):
        """Smallest toggle instant > t (t may be -1)."""
        best = None
        for d, c in self.cfg.items():
            p = self.phase(d)
            cand = p if t < p else p + ((t - p) // c["half"] + 1) * c["half"]
            best = cand if best is None else min(best, cand)
        return best

    def active(self, t):
        """Domains with an active edge at t."""
        return {d for d, lv in self.toggles(t).items() if lv == (1 if self.cfg[d]["edge"] == "pos" else 0)}

    def next_edge(self, now, pred, inclusive=False, limit=10 ** 5):
        """Smallest toggle instant t > now (>= now if inclusive) with pred(t)."""
        t = now - 1 if inclusive else now
        for _ in range(limit):
            t = self.next_after(t)
            if pred(t):
                return t
        raise HarnessError(f"timeline search did not terminate: cfg={self.cfg} now={now} inclusive={inclusive} last={t}")

    def coincides(self, t):
        return bool(self.toggles(t))


# ------------------------------------------------------------------------------------------ design
@st.composite
def designs(draw, depth, min_half=1):
    g = ProgGen(draw, depth=depth, sync_domains=DOMS)
    prog = g.program()
    # both domains always exist
    for d in DOMS:
        k = len(prog["env"])
        prog["env"].append([2, False]); prog["dom"][str(k)] = d; prog["init"][str(k)] = 0
    n = len(prog["env"])
    obs = []
    for j in range(draw(INT(1, 3))):
        srcs = [draw(INT(0, n - 1)) for _ in range(2)]
        obs.append({"kind": PICK(draw, ["comb", "a", "b"]), "srcs": srcs, "op": PICK(draw, ["+", "^", "-"]), "w": draw(INT(1, 6))})
    return {"prog": prog, "obs": obs, "clocks": draw_clocks(draw, min_half)}


class Built:
    pass


def build(design, *, adder_process=False, counter_process=False, mux_process=False):
    prog = design["prog"]
    dcfg = {d: {"clk_edge": design["clocks"][d]["edge"], "async_reset": bool(design["clocks"][d].get("async"))} for d in DOMS}
    top = Module()
    b = build_program(prog, domains=dcfg, module=top)
    sub = Module()
    top.submodules.observer = sub
    o = Built()
    o.b, o.top = b, top
    o.obs = []
    for j, ob in enumerate(design["obs"]):
        s = Signal(ob["w"], name=f"obs{j}")
        x, y = b.sigs[ob["srcs"][0]], b.sigs[ob["srcs"][1]]
        e = {"+": x + y, "^": x ^ y, "-": x - y}[ob["op"]]
        if ob["kind"] == "comb":
            sub.d.comb += s.eq(e)
        else:
            sub.d[ob["kind"]] += s.eq(s + e)
        o.obs.append(s)
    # the guide's two replaceable circuits
    # non-zero inputs at time 0: a replacing process has to run once at the very beginning (also after reset())
    o.add_a, o.add_b, o.add_o = Signal(4, name="add_a", init=3), Signal(4, name="add_b", init=4), Signal(5, name="add_o")
    o.cnt_en, o.cnt = Signal(init=1, name="cnt_en"), Signal(4, name="cnt")
    if not adder_process:
        m2 = Module(); top.submodules.adder = m2
        m2.d.comb += o.add_o.eq(o.add_a + o.add_b)
    if not counter_process:
        m3 = Module(); top.submodules.counter = m3
        with m3.If(o.cnt_en):
            m3.d.a += o.cnt.eq(o.cnt + 1)
    # a multiplexer written in default-then-override style
    o.mux_sel, o.mux_a, o.mux_x, o.mux_y = Signal(name="mux_sel", init=1), Signal(4, name="mux_a", init=5), Signal(4, name="mux_x"), Signal(4, name="mux_y")
    if not mux_process:
        m4 = Module(); top.submodules.mux = m4
        m4.d.comb += o.mux_y.eq(0)
        with m4.If(o.mux_sel):
            m4.d.comb += o.mux_y.eq(o.mux_a)
    # a memory written from both clock domains (disjoint granules, so that coincident edges stay well defined)
    from amaranth.lib.memory import Memory
    top.submodules.mem = o.mem = mem = Memory(shape=4, depth=2, init=[3, 12])
    o.wa = mem.write_port(domain="a", granularity=2)
    o.wb = mem.write_port(domain="b", granularity=2)
    o.rp = mem.read_port(domain="comb")
    return o


def add_processes(sim, o, cd_a, *, adder_process, counter_process, mux_process=False):
    if mux_process:
        async def mux(ctx):
            async for sel_value, a_value, x_value in ctx.changed(o.mux_sel, o.mux_a, o.mux_x):
                ctx.set(o.mux_y, 0)
                if sel_value:
                    ctx.set(o.mux_y, a_value)
        sim.add_process(mux)
    if adder_process:
        async def adder(ctx):
            async for a_value, b_value in ctx.changed(o.add_a, o.add_b):
                ctx.set(o.add_o, a_value + b_value)
        sim.add_process(adder)
    if counter_process:
        async def counter(ctx):
            count_value = 0
            async for clk_edge, rst_value, en_value in ctx.tick(cd_a).sample(o.cnt_en):
                if rst_value:
                    count_value = 0
                elif clk_edge and en_value:
                    count_value = (count_value + 1) % 16
                    ctx.set(o.cnt, count_value)
        sim.add_process(counter)


# ------------------------------------------------------------------------------------------ scripts
def draw_script(draw, design, owned_inputs, tl, nops, allow_changed=True, allow_watch=False):
    """Testbench script; the generator follows the timeline so that delays never expire on a clock toggle."""
    prog = design["prog"]
    env = prog["env"]
    n = len(env)
    ops = []
    now = 0
    awaited = False       # before the first await an edge at t=0 (explicit zero phase) is still ahead
    for _ in range(nops):
        k = draw(INT(0, 15))
        if allow_watch and awaited and draw(INT(0, 5)) == 0:
            # a multi-shot changed() loop entered AFTER other awaits: it must sleep until the counter really changes
            cnt = draw(INT(1, 3))
            ops.append(["watch", cnt])
            for _ in range(cnt):
                now = tl.next_edge(now, lambda t: "a" in tl.active(t))
            continue
        if k >= 14:
            which = PICK(draw, ["wa_en", "wb_en", "wa_data", "wb_data", "wa_addr", "wb_addr", "wa_en", "wb_en"])
            v = {"wa_en": 1, "wb_en": 2}.get(which) if which in ("wa_en", "wb_en") and draw(INT(0, 3)) else \
                draw(INT(0, 1 if "addr" in which else 15)) * (0 if which in ("wa_en", "wb_en") else 1)
            ops.append(["setx", which, v])
        elif k <= 2 and owned_inputs:
            i = PICK(draw, owned_inputs)
            ops.append(["set", i, draw(value_of_shape(*env[i]))])
        elif k == 3:
            which = PICK(draw, ["add_a", "add_b", "cnt_en", "mux_sel", "mux_a", "mux_x", "mux_x",
                                "wa_en", "wa_data", "wa_addr", "wb_en", "wb_data", "wb_addr", "rp_addr"])
            hi = {"cnt_en": 1, "mux_sel": 1, "wa_en": 1, "wb_en": 1, "wa_addr": 1, "wb_addr": 1, "rp_addr": 1}.get(which, 15)
            v = draw(INT(0, hi))
            if which == "wb_en":
                v *= 2            # port b only ever writes the upper granule, port a the lower one
            ops.append(["setx", which, v])
        elif k <= 5:
            ops.append(["get", [draw(INT(0, n - 1)) for _ in range(draw(INT(1, 3)))]])
        elif k <= 8:
            d = PICK(draw, DOMS)
            kind = PICK(draw, ["tick", "sample", "repeat"])
            if kind == "tick":
                ops.append(["tick", d]); cnt = 1
            elif kind == "sample":
                other = [k2 for k2, dn in prog["dom"].items() if dn not in ("comb", d)]
                picks = [int(PICK(draw, other)) if other and draw(BOOL) else draw(INT(0, n - 1)) for _ in range(draw(INT(1, 2)))]
                ops.append(["sample", d, picks]); cnt = 1
            else:
                cnt = draw(INT(1, 3)); ops.append(["repeat", d, cnt])
            for _ in range(cnt):
                now = tl.next_edge(now, lambda t: d in tl.active(t), inclusive=not awaited)
                awaited = True
        elif k <= 10:
            # a delay that does not expire on a toggle instant
            for _ in range(20):
                dl = draw(st.one_of(INT(1, 7), INT(1, 4 * max(c["half"] for c in design["clocks"].values()))))
                if not tl.coincides(now + dl):
                    break
            else:
                continue
            ops.append(["delay", dl]); now += dl; awaited = True
        elif k == 11:
            d = PICK(draw, DOMS)
            pol = draw(INT(0, 1))
            ops.append(["edge", d, pol])
            now = tl.next_edge(now, lambda t: tl.toggles(t).get(d) == pol, inclusive=not awaited)
            awaited = True
        else:
            ops.append(["getx"])
    return ops


def run_script(ctx, o, cds, ops, log, tbid, samples=None):
    """Returns the coroutine body executing ops and appending observations to log."""
    b = o.b
    async def tb(c):
        for i, op in enumerate(ops):
            k = op[0]
            rec = None
            if k == "set":
                c.set(b.sigs[op[1]], op[2])
            elif k == "setx":
                tgt = {"wa_en": o.wa.en, "wa_data": o.wa.data, "wa_addr": o.wa.addr, "wb_en": o.wb.en, "wb_data": o.wb.data,
                       "wb_addr": o.wb.addr, "rp_addr": o.rp.addr}.get(op[1])
                c.set(tgt if tgt is not None else getattr(o, op[1]), op[2])
            elif k == "get":
                rec = [c.get(b.sigs[j]) for j in op[1]]
            elif k == "getx":
                rec = [c.get(o.add_o), c.get(o.cnt), c.get(o.mux_y), c.get(o.rp.data), c.get(o.mem.data[0]), c.get(o.mem.data[1])] \
                      + [c.get(s) for s in o.obs]
            elif k == "tick":
                await c.tick(cds[op[1]])
                rec = []
            elif k == "sample":
                res = await c.tick(cds[op[1]]).sample(*[b.sigs[j] for j in op[2]])
                rec = [int(bool(res[0])), int(bool(res[1]))] + list(res[2:]) + [c.get(b.sigs[j]) for j in op[2]]
            elif k == "repeat":
                await c.tick(cds[op[1]]).repeat(op[2])
                rec = []
            elif k == "watch":
                seen = 0
                async for values in c.changed(o.cnt):
                    log.append((tbid, i, c.elapsed_time().femtoseconds, (values[0],)))
                    seen += 1
                    if seen >= op[1]:
                        break
            elif k == "delay":
                await c.delay(Period(fs=op[1]))
                rec = []
            elif k == "edge":
                if op[2]:
                    await c.posedge(cds[op[1]].clk)
                else:
                    await c.negedge(cds[op[1]].clk)
                rec = []
            if rec is not None:
                log.append((tbid, i, c.elapsed_time().femtoseconds, tuple(rec)))
    return tb


def add_clocks(sim, cds, clocks):
    for d in DOMS:
        c = clocks[d]
        kw = {}
        if c["phase"] is not None:
            kw["phase"] = Period(fs=c["phase"])
        sim.add_clock(Period(fs=2 * c["half"]), domain=cds[d], **kw)


def horizon(design, scripts):
    mx = max(c["half"] for c in design["clocks"].values())
    ph = max((c["phase"] or c["half"]) for c in design["clocks"].values())
    steps = sum(len(s) for s in scripts) + 4
    h = ph + 2 * mx * 4 * steps + sum(op[1] for s in scripts for op in s if op[0] == "delay")
    tl = Timeline(design["clocks"])
    for _ in range(8):
        if not tl.coincides(h):
            return h
        h += 1
    raise HarnessError("no toggle-free instant for the closing observation")


# ------------------------------------------------------------------------------------------ perm
@st.composite
def perm_cases(draw, depth, nops):
    design = draw(designs(depth, min_half=3))       # with a 1 fs half-period every instant is a toggle instant
    tl = Timeline(design["clocks"])
    ntb = draw(INT(1, 3))
    inputs = list(design["prog"]["inputs"])
    owners = {i: draw(INT(0, ntb - 1)) for i in inputs}
    scripts = [draw_script(draw, design, [i for i in inputs if owners[i] == t], tl, draw(INT(2, nops)))
               for t in range(ntb)]
    # setx targets are owned by testbench 0 only
    for t in range(1, ntb):
        scripts[t] = [op for op in scripts[t] if op[0] != "setx"]
    if draw(BOOL):
        # a block that exercises the default-then-override multiplexer: the process is woken by an unrelated input
        # while its output already holds the value it is going to publish again
        blk = [["setx", "mux_sel", 1], ["setx", "mux_a", draw(INT(1, 15))], ["getx"]]
        for _ in range(draw(INT(1, 3))):
            blk += [["setx", "mux_x", draw(INT(0, 15))], ["getx"]]
        blk += [["setx", "mux_sel", draw(INT(0, 1))], ["getx"], ["setx", "mux_x", draw(INT(0, 15))], ["getx"]]
        at = draw(INT(0, len(scripts[0])))
        scripts[0] = scripts[0][:at] + blk + scripts[0][at:]
    return {"design": design, "scripts": scripts, "adder_process": draw(BOOL), "counter_process": draw(BOOL),
            "mux_process": draw(BOOL),
            "seeds": [draw(INT(0, 2 ** 31)) for _ in range(8)]}


def simulate(case, policy):
    design = case["design"]
    simorder.set_policy(policy)
    with warnings.catch_warnings():
        warnings.simplefilter("ignore")
        o = build(design, adder_process=case["adder_process"], counter_process=case["counter_process"],
                  mux_process=case.get("mux_process", False))
        sim = Simulator(o.top)
        if not simorder.engine_uses_pset(sim):
            raise HarnessError("scheduler-order shim is not in effect (engine does not use the rebound set)")
        cds = o.b.cds
        add_clocks(sim, cds, design["clocks"])
        add_processes(sim, o, cds["a"], adder_process=case["adder_process"], counter_process=case["counter_process"],
                      mux_process=case.get("mux_process", False))
        log = []
        for t, ops in enumerate(case["scripts"]):
            sim.add_testbench(run_script(None, o, cds, ops, log, t))
        final = []

        async def closing(c):
            # runs last (added last): final value of every signal after everything else settled
            await c.delay(Period(fs=horizon(design, case["scripts"])))
            final.extend(c.get(s) for s in o.b.sigs)
            final.extend(c.get(s) for s in o.obs)
            final.extend([c.get(o.add_o), c.get(o.cnt), c.get(o.mux_y), c.get(o.mem.data[0]), c.get(o.mem.data[1])])
        sim.add_testbench(closing)
        sim.run()
    stats = dict(simorder.STATS)
    stats["orders"] = list(stats["orders"])
    return log, final, stats


def perm_body(ctx, case, K=None):
    K = K or (4 if ctx.tier == "quick" else 8)
    policies = [None, "reverse", ("rotate", 1)] + [("shuffle", s) for s in case["seeds"][:max(K - 3, 1)]]
    ref = None
    orders_seen = set()
    multi = 0
    for pol in policies:
        log, final, stats = simulate(case, pol)
        multi = max(multi, stats["multi_runnable"])
        orders_seen.add(tuple(stats["orders"][:32]))
        if ref is None:
            ref = (log, final)
            continue
        if log != ref[0]:
            # first difference
            for x, y in zip(log, ref[0]):
                if x != y:
                    raise Mismatch("observation-depends-on-scheduling-order", policy=repr(pol), baseline_entry=list(y), entry=list(x))
            raise Mismatch("observation-depends-on-scheduling-order", policy=repr(pol), baseline_len=len(ref[0]), len=len(log))
        if final != ref[1]:
            raise Mismatch("final-state-depends-on-scheduling-order", policy=repr(pol), baseline=ref[1], final=final)
    simorder.set_policy(None)
    keys = []
    if multi: keys.append("perm:multi-runnable")
    if len(orders_seen) > 1: keys.append("perm:orders-differed")
    if case["adder_process"]: keys.append("perm:changed-process")
    if case["counter_process"]: keys.append("perm:tick-sample-process")
    if case.get("mux_process"): keys.append("perm:default-then-override-process")
    if any(op[0] == "setx" and op[1] in ("wa_en", "wb_en") and op[2] for sc in case["scripts"] for op in sc): keys.append("perm:memory-written")
    if len(case["scripts"]) > 1: keys.append("perm:several-testbenches")
    cl = case["design"]["clocks"]
    if cl["a"]["half"] == cl["b"]["half"]: keys.append("perm:equal-periods")
    ctx.note(case, bool(multi) and len(orders_seen) > 1, *keys, evals=len(policies) * max(len(ref[0]), 1))


# ------------------------------------------------------------------------------------------ timing + single-testbench reference
@st.composite
def single_cases(draw, depth, nops):
    design = draw(designs(depth))
    tl = Timeline(design["clocks"])
    script = draw_script(draw, design, list(design["prog"]["inputs"]), tl, draw(INT(3, nops)), allow_watch=True)
    script = [op for op in script if op[0] not in ("setx", "getx")]
    return {"design": design, "script": script}


def joint_edge(it, prog, vals, fstate, doms):
    news, nstate = {}, list(fstate)
    for d in sorted(doms):
        new, ns = it.run(vals, fstate, d)
        news[d] = new
        for f, fs in enumerate(it.fsms):
            if fs["dom"] == d:
                nstate[f] = ns[f]
    vals = list(vals)
    for d in doms:
        for k, v in news[d].items():
            vals[k] = v
    return it.settle(vals, nstate), nstate


def single_body(ctx, case):
    design = case["design"]
    prog = design["prog"]
    tl = Timeline(design["clocks"])
    simorder.set_policy(None)
    with warnings.catch_warnings():
        warnings.simplefilter("ignore")
        o = build(design)
        sim = Simulator(o.top)
        cds = o.b.cds
        add_clocks(sim, cds, design["clocks"])
    it = R.Interp(prog)
    vals, fstate = it.initial({i: 0 for i in prog["inputs"]})
    vals = it.settle(vals, fstate)
    log = []
    state = {"now": 0, "vals": vals, "fstate": fstate, "pre": None, "started": False, "cnt": 0}
    stats = dict(coincident=False, sampled=False, cross_domain_sample=False, get_after_set=False, phase0=False, watch=False)

    def advance_to(t_target):
        """Process every toggle instant in (now, t_target] (including now itself before the first await)."""
        t = state["now"] - 1 if not state["started"] else state["now"]
        while True:
            nt = tl.next_after(t)
            if nt > t_target:
                break
            act = tl.active(nt)
            state["pre"] = list(state["vals"])
            if len(tl.toggles(nt)) > 1: stats["coincident"] = True
            if act:
                state["vals"], state["fstate"] = joint_edge(it, prog, state["vals"], state["fstate"], act)
            if "a" in act:
                state["cnt"] = (state["cnt"] + 1) % 16         # the free-running counter of the design (cnt_en stays 1)
            if nt == 0: stats["phase0"] = True
            t = nt
        state["now"] = t_target
        state["started"] = True

    expected = []
    # the reference walks the same script
    last_set = False
    for i, op in enumerate(case["script"]):
        k = op[0]
        if k == "set":
            state["vals"][op[1]] = op[2]
            state["vals"] = it.settle(state["vals"], state["fstate"])
            last_set = True
            continue
        if k == "get":
            expected.append((0, i, state["now"], tuple(state["vals"][j] for j in op[1])))
            if last_set: stats["get_after_set"] = True
            last_set = False
            continue
        last_set = False
        if k in ("tick", "sample", "repeat"):
            d = op[1]
            cnt = op[2] if k == "repeat" else 1
            for _ in range(cnt):
                t = tl.next_edge(state["now"], lambda t: d in tl.active(t), inclusive=not state["started"])
                advance_to(t)
            rec = []
            if k == "sample":
                stats["sampled"] = True
                pre = state["pre"]
                other = [x for x in DOMS if x != d][0]
                if other in tl.active(t) and any(prog["dom"].get(str(j)) == other for j in op[2]):
                    stats["cross_domain_sample"] = True
                rec = [1, 0] + [pre[j] for j in op[2]] + [state["vals"][j] for j in op[2]]
            expected.append((0, i, state["now"], tuple(rec)))
        elif k == "watch":
            for _ in range(op[1]):
                t = tl.next_edge(state["now"], lambda t: "a" in tl.active(t), inclusive=not state["started"])
                advance_to(t)
                expected.append((0, i, state["now"], (state["cnt"],)))
            stats["watch"] = True
        elif k == "delay":
            advance_to(state["now"] + op[1])
            expected.append((0, i, state["now"], ()))
        elif k == "edge":
            d, pol = op[1], op[2]
            t = tl.next_edge(state["now"], lambda t: tl.toggles(t).get(d) == pol, inclusive=not state["started"])
            advance_to(t)
            expected.append((0, i, state["now"], ()))
    with warnings.catch_warnings():
        warnings.simplefilter("ignore")
        sim.add_testbench(run_script(None, o, cds, case["script"], log, 0))
        sim.run()
    for got, exp in zip(log, expected):
        if got[2] != exp[2]:
            raise Mismatch("wake-up-time", op=case["script"][exp[1]], op_index=exp[1], expected_fs=exp[2], actual_fs=got[2],
                           clocks=design["clocks"])
        if got != exp:
            raise Mismatch("observed-values", op=case["script"][exp[1]], op_index=exp[1], time_fs=exp[2],
                           expected=list(exp[3]), actual=list(got[3]))
    if len(log) != len(expected):
        raise Mismatch("log-length", expected=len(expected), actual=len(log))
    keys = ["single:" + k for k, v in stats.items() if v]
    if any(c["phase"] is None for c in design["clocks"].values()): keys.append("single:default-phase")
    if any(c["phase"] == 0 for c in design["clocks"].values()): keys.append("single:explicit-zero-phase")
    if any(c["edge"] == "neg" for c in design["clocks"].values()): keys.append("single:negedge-domain")
    if any(c["edge"] == "neg" and c.get("async") for c in design["clocks"].values()): keys.append("single:negedge-domain-with-asynchronous-reset")
    if any(op[0] == "delay" for op in case["script"]): keys.append("single:delay")
    if any(op[0] == "edge" for op in case["script"]): keys.append("single:posedge-negedge")
    ctx.note(case, stats["sampled"] or stats["get_after_set"], *keys, evals=len(log))


# ------------------------------------------------------------------------------------------ lockstep ordering of testbenches
@st.composite
def lockstep_cases(draw):
    return {"n": draw(INT(2, 5)), "ticks": draw(INT(2, 6)), "half": draw(INT(1, 50)), "seed": draw(INT(0, 2 ** 31)),
            "delay_first": [draw(INT(0, 3)) for _ in range(5)]}


def lockstep_body(ctx, case):
    for pol in (None, "reverse", ("shuffle", case["seed"])):
        simorder.set_policy(pol)
        with warnings.catch_warnings():
            warnings.simplefilter("ignore")
            m = Module()
            m.domains.sync = cd = ClockDomain()
            r = Signal(8)
            m.d.sync += r.eq(r + 1)
            sim = Simulator(m)
            sim.add_clock(Period(fs=2 * case["half"]))
            log = []
            def mk(t):
                async def tb(c):
                    for _ in range(case["ticks"]):
                        await c.tick()
                        log.append((c.elapsed_time().femtoseconds, t, c.get(r)))
                return tb
            for t in range(case["n"]):
                sim.add_testbench(mk(t))
            sim.run()
        by_time = {}
        for tm, t, v in log:
            by_time.setdefault(tm, []).append((t, v))
        for tm, ents in by_time.items():
            if [t for t, _ in ents] != list(range(case["n"])):
                raise Mismatch("testbench-order", time_fs=tm, order=[t for t, _ in ents], policy=repr(pol))
            if len({v for _, v in ents}) != 1:
                raise Mismatch("testbenches-see-different-values-at-one-instant", time_fs=tm, entries=ents)
    simorder.set_policy(None)
    ctx.note(case, True, "lockstep:checked", evals=case["n"] * case["ticks"] * 3)


# ------------------------------------------------------------------------------------------ hand-off between testbenches
@st.composite
def handoff_cases(draw):
    """Writer testbenches set flags at generated instants; observer testbenches wait for changed() / posedge() /
    negedge() of a flag.  Every observer must wake in the very instant of the write - whichever testbench was added
    first, and whether or not the writer finishes right after its last write."""
    half = 10_000
    nflags = draw(INT(1, 2))
    times = sorted(draw(st.lists(INT(1, 12), min_size=2, max_size=8, unique=True)))
    flags = [{"w": draw(INT(1, 2)), "events": []} for _ in range(nflags)]
    for t in times:
        f = flags[draw(INT(0, nflags - 1))]
        f["events"].append([t * half + draw(INT(1, half - 1)), draw(INT(0, (1 << f["w"]) - 1))])
    flags = [f for f in flags if f["events"]]
    obs = [{"flag": draw(INT(0, len(flags) - 1)), "kind": PICK(draw, ["changed", "changed", "posedge", "negedge"])}
           for _ in range(draw(INT(1, 3)))]
    ids = [f"W{i}" for i in range(len(flags))] + [f"O{i}" for i in range(len(obs))]
    return {"half": half, "flags": flags, "observers": obs, "order": list(draw(st.permutations(ids))),
            "tail": [draw(BOOL) for _ in flags]}


def handoff_body(ctx, case):
    flags, obs = case["flags"], case["observers"]
    expect = {}                     # observer index -> [(time, value)]
    for j, ob in enumerate(obs):
        f = flags[ob["flag"]]
        cur, ev = 0, []
        for t, v in f["events"]:
            b0, b1 = cur & 1, v & 1
            hit = {"changed": v != cur, "posedge": (b0, b1) == (0, 1), "negedge": (b0, b1) == (1, 0)}[ob["kind"]]
            if hit:
                ev.append((t, v))
            cur = v
        expect[j] = ev
    stats = dict(observer_before_writer=False, writer_returns_after_last_write=False)
    for pol in (None, "reverse"):
        simorder.set_policy(pol)
        with warnings.catch_warnings():
            warnings.simplefilter("ignore")
            m = Module()
            m.domains.sync = cd = ClockDomain()
            r = Signal(8)
            m.d.sync += r.eq(r + 1)
            sigs = [Signal(f["w"], name=f"flag{i}") for i, f in enumerate(flags)]
            keep = Signal(4)
            m.d.comb += keep.eq(Cat(*sigs))
            sim = Simulator(m)
            sim.add_clock(Period(fs=2 * case["half"]))
            log = {j: [] for j in range(len(obs))}

            def writer(i):
                async def tb(c):
                    cur = 0
                    for t, v in flags[i]["events"]:
                        await c.delay(Period(fs=t - cur))
                        c.set(sigs[i], v)
                        cur = t
                    if case["tail"][i]:
                        await c.delay(Period(fs=777))
                return tb

            def observer(j):
                async def tb(c):
                    sig = sigs[obs[j]["flag"]]
                    for _ in expect[j]:
                        if obs[j]["kind"] == "changed":
                            await c.changed(sig)
                        elif obs[j]["kind"] == "posedge":
                            await c.posedge(sig[0])
                        else:
                            await c.negedge(sig[0])
                        log[j].append((c.elapsed_time().femtoseconds, c.get(sig)))
                return tb
            for name in case["order"]:
                sim.add_testbench(writer(int(name[1:])) if name[0] == "W" else observer(int(name[1:])))
            sim.run_until(Period(fs=14 * case["half"] + 1))
        for j in range(len(obs)):
            if log[j] != expect[j]:
                raise Mismatch("observer-wake-up", observer=j, kind=obs[j]["kind"], expected=[list(x) for x in expect[j]],
                               actual=[list(x) for x in log[j]], order=case["order"], tail=case["tail"], policy=repr(pol))
    simorder.set_policy(None)
    for j, ob in enumerate(obs):
        if expect[j] and case["order"].index(f"O{j}") < case["order"].index(f"W{ob['flag']}"):
            stats["observer_before_writer"] = True
            if not case["tail"][ob["flag"]] and expect[j][-1][0] == flags[ob["flag"]]["events"][-1][0]:
                stats["writer_returns_after_last_write"] = True
    keys = ["handoff:checked"] + ["handoff:" + k for k, v in stats.items() if v]
    ctx.note(case, stats["observer_before_writer"], *keys, evals=2 * sum(len(v) for v in expect.values()))


# ------------------------------------------------------------------------------------------ replacement
def replace_body(ctx, case):
    logs = []
    for adder, counter, mux in ((False, False, False), (True, True, True), (True, False, False), (False, True, False),
                                (False, False, True)):
        c2 = dict(case, adder_process=adder, counter_process=counter, mux_process=mux)
        log, final, _ = simulate(c2, None)
        logs.append(((adder, mux), counter, log, final))
    base = logs[0]
    for adder, counter, log, final in logs[1:]:
        if log != base[2] or final != base[3]:
            for x, y in zip(log, base[2]):
                if x != y:
                    raise Mismatch("process-replacement-changes-observations", adder_process=adder, counter_process=counter,
                                   circuit_entry=list(y), process_entry=list(x))
            raise Mismatch("process-replacement-changes-final-state", adder_process=adder, counter_process=counter,
                           circuit=base[3][-2:], process=final[-2:])
    used = any(op[0] == "setx" for s in case["scripts"] for op in s) and any(op[0] == "getx" for s in case["scripts"] for op in s)
    ctx.note(case, used, "replace:checked", *(["replace:inputs-driven-and-observed"] if used else []), evals=4 * max(len(base[2]), 1))


def parts(tier):
    q = tier == "quick"
    simorder.install()
    return [
        Part("perm", "hyp", strategy=perm_cases(2 if q else 3, 8 if q else 14), body=perm_body, n=60 if q else 500),
        Part("single", "hyp", strategy=single_cases(2 if q else 3, 10 if q else 16), body=single_body, n=150 if q else 1500),
        Part("lockstep", "hyp", strategy=lockstep_cases(), body=lockstep_body, n=30 if q else 200),
        Part("replace", "hyp", strategy=perm_cases(1, 10), body=replace_body, n=40 if q else 300),
        Part("handoff", "hyp", strategy=handoff_cases(), body=handoff_body, n=60 if q else 600),
    ]


REQUIRED = ["perm:multi-runnable", "perm:orders-differed", "perm:changed-process", "perm:tick-sample-process", "perm:default-then-override-process", "perm:memory-written",
            "perm:several-testbenches", "perm:equal-periods", "single:coincident", "single:sampled",
            "single:cross_domain_sample", "single:get_after_set", "single:default-phase", "single:explicit-zero-phase",
            "single:negedge-domain", "single:negedge-domain-with-asynchronous-reset", "single:delay", "single:posedge-negedge", "single:watch", "lockstep:checked",
            "replace:inputs-driven-and-observed", "handoff:observer_before_writer", "handoff:writer_returns_after_last_write"]
