"""C09 — Elaboration and simulation are reproducible."""
import os, sys, io, json, hashlib, subprocess, tempfile, shutil, warnings
from hypothesis import strategies as st

from amaranth.hdl import Period
from amaranth.sim import Simulator

from vlib.runner import Part, Mismatch, HarnessError, HERE, REPO
from vlib.gen_expr import INT, BOOL, PICK
from vlib.gen_prog import ProgGen
from vlib import d09, simorder
from vchecks import c08, c19

PID = "C09"
LEVEL = "exploration"
RULE = ("rtlil: Hypothesis generates batches of designs biased to >=2 IMPLICITLY created clock domains (names from a pool so "
        "that their string hashes order differently), several signals sharing one name, anonymous submodules, a submodule "
        "named like its signals, memories with ports in two domains and instances with ClockSignal()/ResetSignal() "
        "inputs; each batch is converted in child interpreters started with PYTHONHASHSEED in {0,1,2,3} (quick) / 12 "
        "values (thorough); per design the SHA-256 of the RTLIL of a fresh build, of converting THE SAME OBJECT again in "
        "that interpreter and of a second fresh build must all be equal, within and across interpreters. sim: "
        "generated simulations (C08's designs, clocks, processes and testbench scripts, whose first action is a full "
        "read-out of every signal and memory row): trace(run) == trace(after reset(), run again) == trace(partial "
        "run_until, reset(), run) == trace(fresh simulator). plans: generated platforms/designs (C19's generator): two "
        "fresh platforms give identical files and digest, also in child interpreters with other hash seeds; archive() "
        "twice gives identical bytes; extract() writes exactly the planned paths with the planned contents. "
        "Non-trivial: designs with >=2 implicit domains or a name clash; histories with a partial run before the reset. "
        "Distinct by canonical hash of the case.")
ASSUMPTIONS = [
    "Child interpreters import amaranth from the same working tree (PYTHONPATH=<repo>:<verif>).",
    "Source locations embedded in RTLIL attributes are identical because every build runs the same harness code.",
]
QUICK_SHARDS = 4
THOROUGH_SHARDS = 16

DOM_POOLS = [("sync", "a"), ("zeta", "alpha"), ("sync", "pix", "usb"), ("b", "a"), ("d1", "d2", "d0"), ("sync",),
             ("rx", "tx"), ("fast", "slow", "sync")]


def hash_seeds(tier):
    return [0, 1, 2, 3] if tier == "quick" else [0, 1, 2, 3, 5, 7, 11, 42, 99, 1234, 31337, 4294967295]


def run_child(mode, payload, hashseed):
    d = tempfile.mkdtemp(prefix="c09-")
    try:
        path = os.path.join(d, "payload.json")
        with open(path, "w") as f:
            json.dump(payload, f)
        env = dict(os.environ, PYTHONHASHSEED=str(hashseed), PYTHONPATH=f"{REPO}:{HERE}", PYTHONDONTWRITEBYTECODE="1")
        r = subprocess.run([sys.executable, "-m", "vlib.d09", mode, path], env=env, cwd=HERE, capture_output=True,
                           text=True, timeout=600)
        if r.returncode != 0:
            raise ChildFailed(r.stderr[-1500:])
        return json.loads(r.stdout)
    finally:
        shutil.rmtree(d, ignore_errors=True)


class ChildFailed(Exception):
    pass


# ------------------------------------------------------------------------------------------ rtlil
@st.composite
def design_desc(draw):
    doms = list(PICK(draw, DOM_POOLS))
    g = ProgGen(draw, depth=1, sync_domains=tuple(doms), n_inputs=(1, 2), n_targets=(2, 4))
    prog = g.program()
    for d in doms:        # every domain is really used (and therefore implicitly created)
        k = len(prog["env"])
        prog["env"].append([2, False]); prog["dom"][str(k)] = d; prog["init"][str(k)] = 0
        prog["body"].append(["assign", ["sig", k], ["b", "+", ["sig", k], ["sig", prog["inputs"][0]]]])
    targets = [int(k) for k in prog["dom"]]
    subs = []
    names = ["x", "x", "data", "x"]
    for j in range(draw(INT(0, 3))):
        subs.append({"name": names[draw(INT(0, 3))], "w": draw(INT(1, 4)), "src": PICK(draw, targets),
                     "dom": PICK(draw, doms), "anon": draw(BOOL), "inst": draw(BOOL), "mem": draw(INT(0, 2)) == 0})
    for sub in subs:
        sub["rawmem"] = PICK(draw, [0, 0, 0, 1, 2])     # 1: kept by the module, 2: kept by a component under EnableInserter
        sub["inst_kept"] = draw(BOOL)
        if draw(INT(0, 2)) == 0:
            kd, dom = "kd", sub["dom"]
            mp = PICK(draw, [[[kd, "kx"]], [[kd, dom]], [[kd, dom], [dom, kd]], [[kd, dom], [dom, "kx"]], [[dom, kd]]])
            if draw(BOOL):
                mp = list(reversed(mp))
            sub["keeper"] = {"defines": kd, "map": mp}
    return {"prog": prog, "doms": doms, "subs": subs, "port_targets": sorted(set(PICK(draw, targets) for _ in range(2))),
            "port_form": draw(INT(0, 2))}


def _known_renamer(part, case, mm):
    # exactly this pattern: the second conversion of the same object differs, and the design holds a component that keeps
    # its ClockDomain object under a DomainRenamer whose map sends a name to another of its source names
    desc = case[1]
    return (part == "rtlil" and mm.kind == "same-object-converted-twice-differs" and
            any(s.get("keeper") and renamer_revisits(s["keeper"]["map"]) for s in desc["subs"]))


KNOWN = {"renamer-renames-kept-clock-domain": _known_renamer}


def renamer_revisits(mp):
    """A map in which some target name is also a source name (swap, chain): applying it twice differs from once."""
    srcs = {a for a, _ in mp}
    return any(b in srcs for _, b in mp)


@st.composite
def rtlil_batches(draw, n):
    return [draw(design_desc()) for _ in range(n)]


def rtlil_body(ctx, batch):
    seeds = hash_seeds(ctx.tier)
    results = {}
    for hs in seeds:
        try:
            results[hs] = run_child("rtlil", batch, hs)
        except ChildFailed as e:
            raise Mismatch("conversion-failed-in-child", hashseed=hs, stderr=str(e))
    base = results[seeds[0]]

    def judge(ctx, item):
        i, desc = item
        for hs in seeds:
            h = results[hs][i]
            if h[0] != h[2]:
                raise Mismatch("two-fresh-builds-differ-in-one-interpreter", hashseed=hs, design=desc)
            if h[0] != base[i][0]:
                raise Mismatch("rtlil-depends-on-string-hash-seed", hashseeds=[seeds[0], hs], design=desc)
        for hs in seeds:
            h = results[hs][i]
            if h[0] != h[1]:
                raise Mismatch("same-object-converted-twice-differs", hashseed=hs, design=desc)
    for i, desc in enumerate(batch):
        ctx.guarded(judge, [i, desc])     # a listed known finding is counted; the other designs of the batch are still judged
        keys = ["rtlil:design"]
        if len(desc["doms"]) >= 2: keys.append("rtlil:>=2-implicit-domains")
        if len({s["name"] for s in desc["subs"]}) < len(desc["subs"]): keys.append("rtlil:name-clash")
        if any(s["anon"] for s in desc["subs"]): keys.append("rtlil:anonymous-submodule")
        if any(s["inst"] for s in desc["subs"]): keys.append("rtlil:instance-with-clocksignal")
        if any(s["mem"] for s in desc["subs"]): keys.append("rtlil:memory")
        if desc.get("port_form"): keys.append("rtlil:ports-as-" + ["", "triples", "dict"][desc["port_form"]])
        if any(s.get("rawmem") for s in desc["subs"]): keys.append("rtlil:kept-memory-primitive")
        if any(s.get("rawmem") == 2 for s in desc["subs"]): keys.append("rtlil:kept-memory-primitive-under-enable-inserter")
        if any(s["inst"] and s.get("inst_kept") for s in desc["subs"]): keys.append("rtlil:component-returning-a-kept-instance")
        if any(s.get("keeper") for s in desc["subs"]): keys.append("rtlil:renamer-around-kept-clock-domain")
        if any(s.get("keeper") and renamer_revisits(s["keeper"]["map"]) for s in desc["subs"]):
            keys.append("rtlil:renamer-map-revisits-a-name")
        ctx.note(desc, len(desc["doms"]) >= 2 or "rtlil:name-clash" in keys, *keys, evals=3 * len(seeds))


# ------------------------------------------------------------------------------------------ simulation histories
def make_sim(case, log):
    design = case["design"]
    with warnings.catch_warnings():
        warnings.simplefilter("ignore")
        o = c08.build(design, adder_process=case["adder_process"], counter_process=case["counter_process"],
                      mux_process=case.get("mux_process", False))
        sim = Simulator(o.top)
        cds = o.b.cds
        c08.add_clocks(sim, cds, design["clocks"])
        c08.add_processes(sim, o, cds["a"], adder_process=case["adder_process"], counter_process=case["counter_process"],
                          mux_process=case.get("mux_process", False))

        def readout(c):
            return tuple([c.get(s) for s in o.b.sigs] + [c.get(s) for s in o.obs] +
                         [c.get(o.add_o), c.get(o.cnt), c.get(o.mux_y), c.get(o.mem.data[0]), c.get(o.mem.data[1])])
        for t, ops in enumerate(case["scripts"]):
            inner = c08.run_script(None, o, cds, ops, log, t)
            def mk(inner=inner, t=t):
                async def tb(c):
                    log.append((t, -1, c.elapsed_time().femtoseconds, readout(c)))     # state at the very beginning
                    await inner(c)
                    log.append((t, -2, c.elapsed_time().femtoseconds, readout(c)))
                return tb
            sim.add_testbench(mk())
        if case.get("generator_testbench"):
            # the older generator style (still accepted): restarted from its beginning by reset() like any other
            from amaranth.sim import Tick
            def gen():
                for k in range(case["generator_testbench"]):
                    yield Tick(cds["a"])
                    v = yield o.cnt
                    log.append(("gen", k, v))
            sim.add_testbench(gen)
    return sim, o


def sim_body(ctx, case):
    simorder.set_policy(None)
    log = []
    with warnings.catch_warnings():
        warnings.simplefilter("ignore")
        sim, o = make_sim(case, log)
        partial = case["partial"]
        if partial is not None:
            sim.run_until(Period(fs=partial))
            first = None
        else:
            sim.run()
            first = list(log)
        log.clear()
        sim.reset()
        sim.run()
        second = list(log)
        log.clear()
        sim.reset()
        sim.run()
        third = list(log)
        log2 = []
        sim2, _ = make_sim(case, log2)
        sim2.run()
    if first is not None and first != second:
        raise first_difference("run-vs-reset-rerun", first, second)
    if second != third:
        raise first_difference("reset-rerun-vs-second-reset-rerun", second, third)
    if second != log2:
        raise first_difference("reset-rerun-vs-fresh-simulator", log2, second)
    keys = ["sim:history"]
    if partial is not None: keys.append("sim:partial-run-before-reset")
    if case.get("generator_testbench"): keys.append("sim:generator-style-testbench")
    if case["adder_process"] or case["counter_process"] or case.get("mux_process"): keys.append("sim:with-processes")
    if any(op[0] == "setx" and op[1] in ("wa_en", "wb_en") and op[2] for sc in case["scripts"] for op in sc): keys.append("sim:memory-written")
    ctx.note(case, partial is not None, *keys, evals=3 * max(len(second), 1))


def first_difference(kind, a, b):
    for x, y in zip(a, b):
        if x != y:
            return Mismatch(kind, expected_entry=list(x), actual_entry=list(y))
    return Mismatch(kind, expected_len=len(a), actual_len=len(b))


@st.composite
def sim_cases(draw):
    case = draw(c08.perm_cases(1, 8))
    h = c08.horizon(case["design"], case["scripts"])
    case["partial"] = draw(INT(1, max(h // 3, 2))) if draw(INT(0, 2)) else None
    case["generator_testbench"] = draw(INT(1, 4)) if draw(INT(0, 2)) == 0 else 0
    return case


# ------------------------------------------------------------------------------------------ build plans
@st.composite
def plan_batches(draw, n):
    return [draw(c19.plan_cases()) for _ in range(n)]


def plans_body(ctx, batch):
    with warnings.catch_warnings():
        warnings.simplefilter("ignore")
        a = d09.plan_hashes(batch)
        b = d09.plan_hashes(batch)
    if a != b:
        for x, y, case in zip(a, b, batch):
            if x != y:
                raise Mismatch("two-fresh-platforms-give-different-plans", vendor=case["vendor"],
                               differing_files=sorted(k for k in x["files"] if x["files"].get(k) != y["files"].get(k)))
    seeds = hash_seeds(ctx.tier)[:2] + hash_seeds(ctx.tier)[-1:]
    for hs in seeds[1:]:
        try:
            r = run_child("plan", batch, hs)
        except ChildFailed as e:
            raise Mismatch("plan-failed-in-child", hashseed=hs, stderr=str(e))
        for x, y, case in zip(a, r, batch):
            if x != y:
                raise Mismatch("build-plan-depends-on-string-hash-seed", hashseed=hs, vendor=case["vendor"],
                               differing_files=sorted(k for k in x["files"] if x["files"].get(k) != y["files"].get(k)),
                               digest_equal=x["digest"] == y["digest"])
    # archive determinism and extraction, in this interpreter
    for case in batch:
        with warnings.catch_warnings():
            warnings.simplefilter("ignore")
            plan = d09.build_plan(case)
        b1, b2 = io.BytesIO(), io.BytesIO()
        plan.archive(b1); plan.archive(b2)
        if b1.getvalue() != b2.getvalue():
            raise Mismatch("archive-not-deterministic", vendor=case["vendor"])
        import zipfile
        with zipfile.ZipFile(io.BytesIO(b1.getvalue())) as z:
            names = z.namelist()
            if names != sorted(plan.files):
                raise Mismatch("archive-members", expected=sorted(plan.files), actual=names)
            for n in names:
                want = plan.files[n]
                want = want.encode() if isinstance(want, str) else want
                if z.read(n) != want:
                    raise Mismatch("archive-member-content", file=n)
        d = tempfile.mkdtemp(prefix="c09x-")
        try:
            root = plan.extract(os.path.join(d, "out"))
            found = {}
            for dp, dn, fn in os.walk(root):
                for f in fn:
                    p = os.path.join(dp, f)
                    found[os.path.relpath(p, root).replace(os.sep, "/")] = open(p, "rb").read()
            want = {k: (v.encode() if isinstance(v, str) else v) for k, v in plan.files.items()}
            if found != want:
                raise Mismatch("extract-differs-from-plan", missing=sorted(set(want) - set(found)), extra=sorted(set(found) - set(want)),
                               changed=sorted(k for k in want if k in found and want[k] != found[k]))
        finally:
            shutil.rmtree(d, ignore_errors=True)
        ctx.note(case, True, "plan:" + case["vendor"], evals=4)


# ------------------------------------------------------------------------------------------ library components, elaborated twice
def _lib_makers():
    from amaranth.hdl import Module, Signal, ClockDomain, Value, signed
    from amaranth.lib import fifo, cdc, io, data, memory
    from amaranth.lib.crc import catalog, Algorithm
    mk = {}
    for d in (0, 1, 2, 5, 8):
        for w in (0, 3):
            mk[f"SyncFIFO({w},{d})"] = (lambda w=w, d=d: fifo.SyncFIFO(width=w, depth=d), ["sync"])
            mk[f"SyncFIFOBuffered({w},{d})"] = (lambda w=w, d=d: fifo.SyncFIFOBuffered(width=w, depth=d), ["sync"])
            mk[f"AsyncFIFO({w},{d})"] = (lambda w=w, d=d: fifo.AsyncFIFO(width=w, depth=d), ["read", "write"])
            mk[f"AsyncFIFOBuffered({w},{d})"] = (lambda w=w, d=d: fifo.AsyncFIFOBuffered(width=w, depth=d), ["read", "write"])
    for st_ in (2, 3):
        for sg in (False, True):
            mk[f"FFSynchronizer({st_},{sg})"] = (lambda st_=st_, sg=sg: cdc.FFSynchronizer(
                Signal(signed(3) if sg else 3, name="i"), Signal(4, name="o"), stages=st_, init=1), ["sync"])
        for edge in ("pos", "neg"):
            mk[f"AsyncFFSynchronizer({st_},{edge})"] = (lambda st_=st_, edge=edge: cdc.AsyncFFSynchronizer(
                Signal(name="i"), Signal(name="o"), stages=st_, async_edge=edge), ["sync"])
        mk[f"ResetSynchronizer({st_})"] = (lambda st_=st_: cdc.ResetSynchronizer(Signal(name="arst"), stages=st_), ["sync"])
        mk[f"PulseSynchronizer({st_})"] = (lambda st_=st_: cdc.PulseSynchronizer("a", "b", stages=st_), ["a", "b"])
    for name, dw in (("CRC16_CCITT_FALSE", 8), ("CRC32_ETHERNET", 16), ("CRC8_AUTOSAR", 3), ("CRC5_USB", 5)):
        mk[f"crc.{name}({dw})"] = (lambda name=name, dw=dw: getattr(catalog, name)(dw).create(), ["sync"])
    mk["crc.reflected-even-poly"] = (lambda: Algorithm(crc_width=6, polynomial=0x26, initial_crc=5, reflect_input=True,
                                                        reflect_output=False, xor_output=9)(4).create(), ["sync"])
    for dirn in ("i", "o", "io"):
        mk[f"io.Buffer({dirn})"] = (lambda dirn=dirn: io.Buffer(dirn, io.SimulationPort(dirn, 3, invert=[True, False, True])), [])
        mk[f"io.FFBuffer({dirn})"] = (lambda dirn=dirn: io.FFBuffer(dirn, io.SimulationPort(dirn, 2, invert=[False, True])), ["sync"])
    return mk


def _lib_ports(obj):
    from amaranth.hdl import Signal
    from amaranth.lib import io, data
    if isinstance(obj, (io.Buffer, io.FFBuffer)):
        sigs = []
        for holder, names in ((obj, ("i", "o", "oe")), (obj.port, ("i", "o", "oe"))):
            for n in names:
                try:
                    sigs.append(getattr(holder, n))
                except AttributeError:
                    pass
        return sigs
    out = []
    for v in vars(obj).values():
        if isinstance(v, Signal):
            out.append(v)
        elif isinstance(v, data.View):
            out.append(v.as_value())
    return out


def library_cases(ctx):
    for i, name in enumerate(sorted(_lib_makers())):
        if i % ctx.nshards == ctx.shard:
            yield name


def library_body(ctx, name):
    from amaranth.hdl import Module, ClockDomain
    from amaranth.back import rtlil
    make, doms = _lib_makers()[name]

    def build():
        obj = make()
        top = Module()
        for d in doms:
            top.domains += ClockDomain(d)
        top.submodules.dut = obj
        return top, _lib_ports(obj)
    with warnings.catch_warnings():
        warnings.simplefilter("ignore")
        top, ports = build()
        t1 = rtlil.convert(top, ports=ports)
        try:
            t2 = rtlil.convert(top, ports=ports)
        except Exception as e:
            raise Mismatch("library-component-second-conversion-failed", component=name, error=f"{type(e).__name__}: {e}"[:300])
        top3, ports3 = build()
        t3 = rtlil.convert(top3, ports=ports3)
    if t1 != t3:
        raise Mismatch("library-component-two-fresh-builds-differ", component=name)
    if t1 != t2:
        import difflib
        diff = [l for l in difflib.unified_diff(t1.splitlines(), t2.splitlines(), lineterm="", n=0)][:12]
        raise Mismatch("library-component-converted-twice-differs", component=name, first_differences=diff)
    ctx.note(["library", name], True, "lib:component-converted-twice", "rtlil:ports-as-triples", "rtlil:ports-as-dict", evals=3)


def parts(tier):
    q = tier == "quick"
    simorder.install()
    return [
        Part("rtlil", "hyp", strategy=rtlil_batches(6 if q else 10), body=rtlil_body, n=3 if q else 20),
        Part("sim", "hyp", strategy=sim_cases(), body=sim_body, n=40 if q else 400),
        Part("plans", "hyp", strategy=plan_batches(3 if q else 6), body=plans_body, n=2 if q else 10),
        Part("library", "enum", cases=library_cases, body=library_body, exhaustive=True),
    ]


REQUIRED = ["rtlil:design", "rtlil:>=2-implicit-domains", "rtlil:name-clash", "rtlil:anonymous-submodule",
            "rtlil:instance-with-clocksignal", "rtlil:memory", "rtlil:renamer-around-kept-clock-domain",
            "rtlil:renamer-map-revisits-a-name", "rtlil:kept-memory-primitive", "rtlil:kept-memory-primitive-under-enable-inserter",
            "rtlil:component-returning-a-kept-instance", "lib:component-converted-twice", "rtlil:ports-as-triples", "rtlil:ports-as-dict", "sim:history", "sim:generator-style-testbench", "sim:partial-run-before-reset",
            "sim:with-processes", "sim:memory-written", "plan:icestorm", "plan:trellis", "plan:apicula"]
