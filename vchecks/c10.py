"""C10 — Shape casting and constant normalisation are exact and minimal."""
import enum as py_enum, itertools, warnings
from hypothesis import strategies as st

from amaranth.hdl import Shape, Const, Signal, Cat, unsigned, signed
from amaranth.hdl._mem import MemoryData
from amaranth.utils import bits_for, ceil_log2, exact_log2
from amaranth.lib import enum as am_enum

from vlib.runner import Part, Mismatch
from vlib import refsem as R

PID = "C10"
LEVEL = "exploration"
RULE = ("Exhaustive boxes: every range(start, stop, step) in the box, every Const(v, shape) with "
        "v in the box x width 0..9 x signedness, every bits_for/ceil_log2/exact_log2 argument in the "
        "box (each enumerated once, so distinct by construction). Hypothesis: wide integers biased to "
        "2^k, 2^k+-1 and negatives; integer enums of 1..6 members in every order; Cat/Slice trees of "
        "constants; signal inits and memory rows given through the constructor, the init setter, index, slice "
        "and extended-slice assignment; range-shaped signals. Oracle: brute-force search for the "
        "narrowest fitting shape, modular wrap by %, my own evaluation of constant trees. All cases "
        "are non-trivial; distinctness by canonical-JSON hash (Hypothesis parts) or by construction "
        "(enumerated boxes).")
ASSUMPTIONS = [
    "Warnings (truncation, off-by-one hints) are ignored; only values, shapes and exceptions are judged.",
    "Range-shaped signals: acceptance is demanded only for inits that are elements of the range, "
    "rejection for every explicit init that is not an element.",
]
QUICK_SHARDS = 4
THOROUGH_SHARDS = 16


def shp(s):
    return (s.width, s.signed)


def mkshape(w, s):
    return Shape(w, bool(s))


# ---------------------------------------------------------------------------------- ranges

def range_cases(ctx):
    lim = 24 if ctx.tier == "quick" else 40
    steps = [1, 2, 3, 4, 5, -1, -2, -3, -4, -5]
    k = 0
    for start in range(-lim, lim + 1):
        if (start + lim) % ctx.nshards != ctx.shard:
            continue
        yield ["rangeblock", start, lim, steps]


def range_body(ctx, case):
    _, start, lim, steps = case
    n = 0
    cls = set()
    for stop in range(-lim, lim + 1):
        for step in steps:
            r = range(start, stop, step)
            exp = R.range_shape(r)
            got = shp(Shape.cast(r))
            n += 1
            if got != exp:
                raise Mismatch("range-shape", range=[start, stop, step], expected=exp, actual=got)
            # a signal of that shape must agree
            if len(r) == 0:
                cls.add("range:empty")
            elif step < 0:
                cls.add("range:negstep")
            if len(r) and min(r) < 0 <= max(r):
                cls.add("range:mixed-sign")
            if len(r) and (max(r) + 1) & max(r) == 0 and max(r) > 0:
                cls.add("range:pow2-corner")
            if list(r) == [0]:
                cls.add("range:only-zero")
    ctx.note_bulk(n, n, ["range", start, -lim, 1], *cls)


# ---------------------------------------------------------------------------------- consts

def const_cases(ctx):
    lim = 150 if ctx.tier == "quick" else 300
    for v in range(-lim, lim + 1):
        if (v + lim) % ctx.nshards == ctx.shard:
            yield ["constblock", v]


def const_body(ctx, case):
    _, v = case
    n = 0
    for w in range(0, 10):
        for s in (False, True):
            if s and w == 0:
                continue
            c = Const(v, mkshape(w, s))
            n += 1
            # brute force: the unique member of the shape's range congruent to v mod 2^w
            lo, hi = (-(1 << (w - 1)), (1 << (w - 1))) if s else (0, 1 << w)
            cands = [x for x in range(lo, hi) if (x - v) % (1 << w) == 0]
            if len(cands) != 1:
                from vlib.refsem import OracleBug
                raise OracleBug("no unique representative")
            if c.value != cands[0] or shp(c.shape()) != (w, s):
                raise Mismatch("const-wrap", v=v, shape=[w, s], expected=cands[0], actual=c.value,
                               actual_shape=shp(c.shape()))
            # Signal init / memory init wrap the same way
            with warnings.catch_warnings():
                warnings.simplefilter("ignore")
                sig = Signal(mkshape(w, s), init=v)
                md = MemoryData(shape=mkshape(w, s), depth=2, init=[v])
            if sig.init != cands[0]:
                raise Mismatch("signal-init-wrap", v=v, shape=[w, s], expected=cands[0], actual=sig.init)
            if list(md.init) != [cands[0], 0]:
                raise Mismatch("memory-init-wrap", v=v, shape=[w, s], expected=[cands[0], 0],
                               actual=list(md.init))
            n += 2
        # Const(v, int width): signed iff v < 0
        if w >= 1 or v >= 0:
            c = Const(v, w)
            if shp(c.shape()) != (w, v < 0) or c.value != R.wrap(v, w, v < 0):
                raise Mismatch("const-int-shape", v=v, width=w, actual=[c.value, shp(c.shape())])
            n += 1
    c = Const(v)
    exp = R.const_shape(v)
    if shp(c.shape()) != exp or c.value != v:
        raise Mismatch("const-minimal-shape", v=v, expected=exp, actual=shp(c.shape()), value=c.value)
    n += 1
    ctx.note_bulk(n, n, ["const", v, "widths 0..9 x signedness"], "const:neg" if v < 0 else "const:nonneg")


# ---------------------------------------------------------------------------------- helpers

def helper_cases(ctx):
    if ctx.shard == 0:
        yield ["helpers", -1030, 1030]


def helper_body(ctx, case):
    _, lo, hi = case
    n = 0
    for v in range(lo, hi + 1):
        n += check_helpers(v)
    ctx.note_bulk(n, n, case, "helpers")


def check_helpers(v):
    n = 0
    # bits_for: width of the minimal shape holding v; zero takes one bit
    exp = R.min_width(v, v < 0, lo=1)
    if bits_for(v) != exp:
        raise Mismatch("bits_for", v=v, expected=exp, actual=bits_for(v))
    exp_s = R.min_width(v, True)
    if bits_for(v, True) != exp_s:
        raise Mismatch("bits_for-signed", v=v, expected=exp_s, actual=bits_for(v, True))
    n += 2
    if v < 0:
        for f in (ceil_log2, exact_log2):
            try:
                f(v)
            except ValueError:
                pass
            else:
                raise Mismatch("log2-negative-accepted", v=v, fn=f.__name__)
    else:
        k = 0
        while (1 << k) < v:
            k += 1
        if ceil_log2(v) != k:
            raise Mismatch("ceil_log2", v=v, expected=k, actual=ceil_log2(v))
        is_pow2 = v >= 1 and (1 << k) == v
        try:
            r = exact_log2(v)
        except ValueError:
            if is_pow2:
                raise Mismatch("exact_log2-rejects-power", v=v)
        else:
            if not is_pow2 or r != k:
                raise Mismatch("exact_log2", v=v, actual=r)
    return n + 2


# ---------------------------------------------------------------------------------- hypothesis parts

def big_ints(maxbits=130):
    k = st.integers(0, maxbits)
    corner = st.builds(lambda k, d, neg: (-1 if neg else 1) * ((1 << k) + d), k,
                       st.sampled_from([-2, -1, 0, 1, 2]), st.booleans())
    return st.one_of(corner, st.integers(-(1 << maxbits), 1 << maxbits), st.integers(-70, 70))


def bigint_body(ctx, v):
    check_helpers(v)
    c = Const(v)
    if shp(c.shape()) != R.const_shape(v) or c.value != v:
        raise Mismatch("const-minimal-shape", v=v, expected=R.const_shape(v), actual=shp(c.shape()))
    w, s = shp(c.shape())
    # minimality stated directly: fits, and one bit less does not (except the 1-bit floor)
    if not R.fits(v, w, s) or (w > 1 and R.fits(v, w - 1, s)):
        raise Mismatch("const-not-minimal", v=v, shape=[w, s])
    ctx.note(["bigint", str(v)], True, "bigint:pow2-corner" if abs(v) > 4 and
             (abs(v) & (abs(v) - 1) == 0 or (abs(v) + 1) & abs(v) == 0 or (abs(v) - 1) & (abs(v) - 2) == 0)
             else "bigint:other")


def bigconst_strategy():
    # last element: how the memory row is given (constructor, init setter, index / slice / extended slice assignment)
    return st.tuples(big_ints(), st.integers(0, 140), st.booleans(), st.integers(0, 4)).filter(lambda t: not (t[2] and t[1] == 0))


MEM_ROUTES = ["constructor", "init-setter", "index-assignment", "slice-assignment", "extended-slice-assignment"]


def bigconst_body(ctx, case):
    v, w, s, route = case
    c = Const(v, mkshape(w, s))
    exp = R.wrap(v, w, s)
    if c.value != exp or not R.fits(c.value, w, s) or (c.value - v) % (1 << w) != 0:
        raise Mismatch("const-wrap", v=v, shape=[w, s], expected=exp, actual=c.value)
    with warnings.catch_warnings():
        warnings.simplefilter("ignore")
        sig = Signal(mkshape(w, s), init=v)
        if route == 0:
            md = MemoryData(shape=mkshape(w, s), depth=3, init=[0, v])
        else:
            md = MemoryData(shape=mkshape(w, s), depth=3, init=[])
            if route == 1: md.init = [0, v]
            elif route == 2: md.init[1] = v
            elif route == 3: md.init[0:2] = [0, v]
            else: md.init[1::-1] = [v, 0]
        rows = [md.init[k] for k in range(3)]
    if sig.init != exp:
        raise Mismatch("signal-init-wrap", v=v, shape=[w, s], expected=exp, actual=sig.init)
    # the alternative constructor: a copy keeps the wrapped value, and an explicit initial value (0 included) replaces it
    with warnings.catch_warnings():
        warnings.simplefilter("ignore")
        cp, cp0, cpv = Signal.like(sig), Signal.like(sig, init=0), Signal.like(Signal(mkshape(w, s), init=1 if w else 0), init=v)
    if (cp.init, cp0.init, cpv.init) != (exp, 0, exp):
        raise Mismatch("signal-like-init", v=v, shape=[w, s], expected=[exp, 0, exp], actual=[cp.init, cp0.init, cpv.init])
    if list(md.init) != [0, exp, 0] or rows != [0, exp, 0]:
        raise Mismatch("memory-init-wrap", v=v, shape=[w, s], route=MEM_ROUTES[route], expected=exp, actual=list(md.init))
    ctx.note(["bigconst", str(v), w, s, route], True, "bigconst:truncating" if not R.fits(v, w, s) else "bigconst:fits",
             "bigconst:memory-row-by-" + MEM_ROUTES[route])


def bigrange_strategy():
    step = st.one_of(st.integers(1, 7), st.integers(-7, -1), big_ints(70).filter(lambda x: x != 0))
    near = st.builds(lambda a, n, st_: (a, a + n * st_, st_), big_ints(), st.integers(-3, 40), step)
    free = st.tuples(big_ints(), big_ints(), step)
    return st.one_of(near, free)


def bigrange_body(ctx, case):
    a, b, stp = case
    r = range(a, b, stp)
    got = shp(Shape.cast(r))
    empty = not r          # len() overflows for ranges longer than sys.maxsize
    if empty:
        exp = (0, False)
    else:
        lo, hi = min(r[0], r[-1]), max(r[0], r[-1])
        s = lo < 0
        w = 1 if s else 0
        while not (R.fits(lo, w, s) and R.fits(hi, w, s)):
            w += 1
        exp = (w, s)
    if got != exp:
        raise Mismatch("range-shape", range=[str(a), str(b), str(stp)], expected=exp, actual=got)
    ctx.note(["bigrange", str(a), str(b), str(stp)], True,
             "bigrange:empty" if empty else ("bigrange:huge" if (hi - lo) // abs(stp) >= 2**63 else "bigrange:nonempty"))


def enum_strategy():
    vals = st.lists(st.one_of(st.integers(-20, 20), big_ints(40)), min_size=1, max_size=6, unique=True)
    return st.tuples(vals, st.sampled_from(["py.Enum", "py.IntEnum", "am.Enum", "am.IntEnum", "py.Flag-like"]))


def enum_body(ctx, case):
    vals, kind = case
    base = {"py.Enum": py_enum.Enum, "py.IntEnum": py_enum.IntEnum, "am.Enum": am_enum.Enum,
            "am.IntEnum": am_enum.IntEnum, "py.Flag-like": py_enum.Enum}[kind]
    E = base("E", {f"M{i}": v for i, v in enumerate(vals)})
    exp = R.enum_shape(vals)
    got = shp(Shape.cast(E))
    if got != exp:
        raise Mismatch("enum-shape", values=[str(v) for v in vals], kind=kind, expected=exp, actual=got)
    sig = Signal(E)
    if shp(sig.shape()) != exp:
        raise Mismatch("enum-signal-shape", values=[str(v) for v in vals], expected=exp, actual=shp(sig.shape()))
    for m in E:
        c = Const.cast(m)
        if shp(c.shape()) != exp or c.value != m.value:
            raise Mismatch("enum-member-const", value=str(m.value), expected=[m.value, exp],
                           actual=[c.value, shp(c.shape())])
    neg = [v < 0 for v in vals]
    cls = "enum:unsigned"
    if any(neg):
        cls = "enum:signed-after-unsigned" if not neg[0] else "enum:signed-first"
    ctx.note(["enum", [str(v) for v in vals], kind], True, cls)


# constant trees: ["c", v, w, s] | ["cat", [trees]] | ["slice", tree, a, b]
def ctree_strategy():
    leaf = st.builds(lambda v, w, s: ["c", v, max(w, 1) if s else w, s],
                     st.integers(-300, 300), st.integers(0, 9), st.booleans())
    def ext(children):
        cat = st.builds(lambda ps: ["cat", ps], st.lists(children, max_size=4))
        sl = st.builds(lambda t, a, b: ["slice", t, a, b], children, st.integers(0, 12), st.integers(0, 12))
        return st.one_of(cat, sl)
    return st.recursive(leaf, ext, max_leaves=8)


def ctree_width(t):
    if t[0] == "c":
        return t[2]
    if t[0] == "cat":
        return sum(ctree_width(p) for p in t[1])
    w = ctree_width(t[1])
    a, b = sorted((min(t[2], w), min(t[3], w)))
    return b - a


def ctree_eval(t):
    """Bit pattern (non-negative int) of the tree."""
    if t[0] == "c":
        return R.bits(R.wrap(t[1], t[2], t[3]), t[2])
    if t[0] == "cat":
        v = off = 0
        for p in t[1]:
            v |= ctree_eval(p) << off
            off += ctree_width(p)
        return v
    w = ctree_width(t[1])
    a, b = sorted((min(t[2], w), min(t[3], w)))
    return (ctree_eval(t[1]) >> a) & ((1 << (b - a)) - 1)


def ctree_build(t):
    if t[0] == "c":
        return Const(t[1], mkshape(t[2], t[3]))
    if t[0] == "cat":
        return Cat(*[ctree_build(p) for p in t[1]])
    w = ctree_width(t[1])
    a, b = sorted((min(t[2], w), min(t[3], w)))
    return ctree_build(t[1])[a:b]


def ctree_depth(t):
    if t[0] == "c":
        return 0
    if t[0] == "cat":
        return 1 + max([ctree_depth(p) for p in t[1]], default=0)
    return 1 + ctree_depth(t[1])


def ctree_body(ctx, t):
    c = Const.cast(ctree_build(t))
    exp_w = ctree_width(t)
    exp_v = ctree_eval(t)
    if t[0] == "c":
        # a constant casts to itself and keeps its own shape
        if shp(c.shape()) != (t[2], t[3]) or c.value != R.wrap(t[1], t[2], t[3]):
            raise Mismatch("const-cast-leaf", tree=t, actual=[c.value, shp(c.shape())])
    elif shp(c.shape()) != (exp_w, False) or c.value != exp_v:
        raise Mismatch("const-cast-tree", tree=t, expected=[exp_v, exp_w], actual=[c.value, shp(c.shape())])
    # a signal / memory row initialised with the tree wraps it like a constant
    with warnings.catch_warnings():
        warnings.simplefilter("ignore")
        sig = Signal(5, init=ctree_build(t))
    # (a bare constant keeps its signedness and is sign-extended; Cat/Slice results are unsigned)
    exp_init = (R.wrap(t[1], t[2], t[3]) if t[0] == "c" else exp_v) % 32
    if sig.init != exp_init:
        raise Mismatch("signal-init-from-tree", tree=t, expected=exp_init, actual=sig.init)
    d = ctree_depth(t)
    ctx.note(["ctree", t], d >= 1, f"ctree:depth{min(d, 3)}")


def rsig_strategy():
    return st.tuples(st.integers(-20, 20), st.integers(0, 25), st.sampled_from([1, 1, 1, 2, 3, -1, -2]),
                     st.integers(-30, 30))


def rsig_body(ctx, case):
    a, n, stp, v = case
    r = range(a, a + n * stp, stp) if stp > 0 else range(a + n * (-stp), a, stp)
    inside = v in r
    with warnings.catch_warnings():
        warnings.simplefilter("ignore")
        try:
            sig = Signal(r, init=v)
        except Exception as e:
            if inside:
                raise Mismatch("range-signal-rejects-member", range=[r.start, r.stop, r.step], init=v,
                               exc=type(e).__name__)
            if type(e).__name__ != "SyntaxError":
                raise Mismatch("range-signal-wrong-exception", range=[r.start, r.stop, r.step], init=v,
                               exc=type(e).__name__)
            ctx.note(["rsig", a, n, stp, v], True, "rsig:rejected")
            return
    if not inside:
        raise Mismatch("range-signal-accepts-outsider", range=[r.start, r.stop, r.step], init=v,
                       actual_init=sig.init)
    if sig.init != v or shp(sig.shape()) != R.range_shape(r):
        raise Mismatch("range-signal-init", range=[r.start, r.stop, r.step], init=v, actual=sig.init)
    ctx.note(["rsig", a, n, stp, v], True, "rsig:accepted")


def parts(tier):
    q = tier == "quick"
    return [
        Part("range_box", "enum", cases=range_cases, body=range_body, exhaustive=True),
        Part("const_box", "enum", cases=const_cases, body=const_body, exhaustive=True),
        Part("helper_box", "enum", cases=helper_cases, body=helper_body, exhaustive=True),
        Part("bigint", "hyp", strategy=big_ints(), body=bigint_body, n=400 if q else 4000),
        Part("bigconst", "hyp", strategy=bigconst_strategy(), body=bigconst_body, n=400 if q else 4000),
        Part("bigrange", "hyp", strategy=bigrange_strategy(), body=bigrange_body, n=400 if q else 4000),
        Part("enum", "hyp", strategy=enum_strategy(), body=enum_body, n=300 if q else 3000),
        Part("ctree", "hyp", strategy=ctree_strategy(), body=ctree_body, n=400 if q else 4000),
        Part("rsig", "hyp", strategy=rsig_strategy(), body=rsig_body, n=300 if q else 3000),
    ]


REQUIRED = ["range:empty", "range:negstep", "range:mixed-sign", "range:pow2-corner", "range:only-zero",
            "const:neg", "helpers", "bigint:pow2-corner", "bigconst:truncating", "bigrange:empty", "bigrange:huge",
            "enum:signed-after-unsigned", "enum:signed-first", "enum:unsigned", "ctree:depth2",
            "rsig:rejected", "rsig:accepted"] + ["bigconst:memory-row-by-" + r for r in MEM_ROUTES]


def coverage_extra(tier, counters, extra):
    lim = 24 if tier == "quick" else 40
    return {"exhaustive": True,
            "exhaustive_subspaces": [f"range(start,stop,step) start,stop in [-{lim},{lim}] step in +-1..5",
                                     f"Const(v,(w,s)) v in [-{150 if tier == 'quick' else 300},+] w in 0..9",
                                     "bits_for/ceil_log2/exact_log2 on [-1030,1030]"]}
