"""C11 — Memories behave as arrays of rows under any port configuration."""
import warnings
from hypothesis import strategies as st

from amaranth.hdl import Module, ClockDomain, Signal, Cat, Value, Shape, signed, unsigned
from amaranth.lib import data
from amaranth.lib.memory import Memory
from amaranth.sim import Simulator

from vlib.reuse import elaborated_before
from vlib.runner import Part, Mismatch, HarnessError
from vlib.gen_expr import INT, BOOL, PICK

PID = "C11"
LEVEL = "exploration"
RULE = ("Hypothesis generates memories: row shape unsigned 0..6 / signed 1..5 / ArrayLayout / StructLayout / Struct class with field defaults (rows the "
        "initialiser does not list hold the defaults), depth 0..9 "
        "(incl. 0, 1, non-powers of two), partial initial contents, 0..3 write ports (domain a or b, granularity any "
        "divisor or None), 0..3 read ports (asynchronous, or synchronous in a or b with any subset of the same-domain "
        "write ports as transparency set); all port inputs are driven by the harness; addresses are biased to a window "
        "of 3 rows (and to rows beyond the depth) so that same-edge collisions are frequent. Events: port input "
        "changes; rising edges of any subset of {clk_a, clk_b} in one instant; direct row reads / writes from the "
        "testbench. Oracle: an array-of-rows model written from the lib.memory documentation with a per-bit "
        "'unspecified' mask for: reads beyond the depth, two ports writing one bit in the same instant, a row read "
        "in one domain in the instant it is written in another. After every event every read port and every row "
        "(ctx.get(mem.data[i])) is compared on all specified bits. rtlil: the same memories converted to RTLIL and "
        "executed by the independent evaluator (vlib/rtlil_eval.py) under the same events; every read port is compared "
        "with the simulator wherever the RTLIL side is defined (undefined bits are masked and counted). Non-trivial: a "
        "non-empty transparency set or granularity finer than the row, AND a same-edge read/write address collision "
        "occurred. Distinct by canonical hash of the case.")
ASSUMPTIONS = [
    "Port inputs change only between clock events.",
    "Clock domains of the memory are reset-less here (domain reset of read-port registers is exercised in C03).",
    "Bits written by two ports in the same instant, and reads that race with a write from another domain, are unspecified and not compared.",
]
QUICK_SHARDS = 4
THOROUGH_SHARDS = 16


# ------------------------------------------------------------------------------------------ descriptors
def draw_shape(draw):
    k = draw(INT(0, 9))
    if k <= 4:
        return ["u", draw(st.one_of(INT(0, 2), INT(1, 6)))]
    if k <= 6:
        return ["s", draw(INT(1, 5))]
    if k <= 8:
        return ["array", draw(INT(1, 3)), draw(INT(1, 4))]
    ws = [draw(INT(1, 3)), draw(INT(0, 2)), draw(INT(1, 2))]
    if draw(BOOL):
        return ["struct", ws]
    # a Struct class whose fields have default values: rows that the initialiser does not list hold the defaults
    return ["structcls", ws, [draw(INT(0, (1 << w_) - 1)) if w_ else 0 for w_ in ws]]


def default_row(sh):
    """Bit pattern of a row that the initialiser does not list."""
    if sh[0] != "structcls":
        return 0
    out, off = 0, 0
    for w_, d_ in zip(sh[1], sh[2]):
        out |= d_ << off
        off += w_
    return out


def shape_width(sh):
    if sh[0] in ("u", "s"): return sh[1]
    if sh[0] == "array": return sh[1] * sh[2]
    return sum(sh[1])


def build_shape(sh):
    if sh[0] == "u": return unsigned(sh[1])
    if sh[0] == "s": return signed(sh[1])
    if sh[0] == "array": return data.ArrayLayout(unsigned(sh[1]), sh[2])
    if sh[0] == "structcls":
        ns = {"__annotations__": {f"f{i}": unsigned(w) for i, w in enumerate(sh[1])}}
        ns.update({f"f{i}": d_ for i, d_ in enumerate(sh[2])})
        return type("Row", (data.Struct,), ns)
    return data.StructLayout({f"f{i}": w for i, w in enumerate(sh[1])})


def granularities(sh):
    """Legal granularity arguments and the number of bits each enable bit covers."""
    out = [(None, None)]
    if sh[0] == "u" and sh[1] > 0:
        out += [(g, g) for g in range(1, sh[1] + 1) if sh[1] % g == 0]
    if sh[0] == "array":
        out += [(g, g * sh[1]) for g in range(1, sh[2] + 1) if sh[2] % g == 0]
    return out


@st.composite
def mem_cases(draw, nev):
    sh = draw_shape(draw)
    w = shape_width(sh)
    depth = draw(st.one_of(INT(0, 3), INT(0, 9)))
    init = [draw(INT(0, (1 << w) - 1)) if w else 0 for _ in range(draw(INT(0, depth)))]
    wports = []
    for _ in range(draw(INT(0, 3))):
        g, gb = PICK(draw, granularities(sh))
        wports.append({"dom": PICK(draw, ["a", "b"]), "gran": g, "gbits": gb})
    rports = []
    for _ in range(draw(INT(0, 3))):
        dom = PICK(draw, ["comb", "a", "a", "b"])
        tr = []
        if dom != "comb":
            tr = [i for i, wp in enumerate(wports) if wp["dom"] == dom and draw(BOOL)]
        rports.append({"dom": dom, "transparent": tr})
    aw = max(depth - 1, 0).bit_length()
    base = draw(INT(0, max(depth - 1, 0)))
    def addr():
        k = draw(INT(0, 9))
        if k <= 6:
            return min((base + draw(INT(0, 2))), (1 << aw) - 1) if aw else 0
        return draw(INT(0, (1 << aw) - 1)) if aw else 0
    evs = []
    for _ in range(nev):
        k = draw(INT(0, 11))
        if k <= 3 and wports:
            i = draw(INT(0, len(wports) - 1))
            wp = wports[i]
            enw = 1 if wp["gran"] is None else (w // wp["gbits"] if w else 0)
            evs.append(["w", i, addr(), draw(INT(0, (1 << w) - 1)) if w else 0,
                        draw(st.one_of(st.just((1 << enw) - 1), INT(0, (1 << enw) - 1))) if enw else 0])
        elif k <= 6 and rports:
            i = draw(INT(0, len(rports) - 1))
            evs.append(["r", i, addr(), draw(INT(0, 3)) != 0])
        elif k <= 9:
            evs.append(["clk", PICK(draw, [["a"], ["b"], ["a", "b"], ["a"], ["a", "b"]])])
        elif depth:
            row = draw(INT(0, depth - 1))
            if draw(BOOL):
                # (last element: the value is given as another integer with the same bit pattern - wider or negative)
                evs.append(["poke", row, draw(INT(0, (1 << w) - 1)) if w else 0, PICK(draw, [0, 0, 1, -1, 3])])
            else:
                evs.append(["peek", row])
    return {"shape": sh, "depth": depth, "init": init, "wports": wports, "rports": rports, "events": evs,
            "decoy": draw(INT(0, 2)) > 0}


def to_py(shape_desc, shape_obj, raw):
    if shape_desc[0] == "u":
        return raw
    if shape_desc[0] == "s":
        w = shape_desc[1]
        return raw - (1 << w) if raw >> (w - 1) else raw
    return shape_obj.from_bits(raw)


class Model:
    """Array of rows with per-bit 'unspecified' masks."""
    def __init__(self, case):
        self.w = shape_width(case["shape"])
        self.depth = case["depth"]
        self.full = (1 << self.w) - 1
        self.rows = [(case["init"][i] if i < len(case["init"]) else default_row(case["shape"])) for i in range(self.depth)]
        self.rowx = [0] * self.depth
        self.wp = [{"addr": 0, "data": 0, "en": 0} for _ in case["wports"]]
        # (the data signal of a read port has the row shape; before the first read it holds that shape's default value)
        self.rp = [{"addr": 0, "en": 1, "data": default_row(case["shape"]), "x": 0} for _ in case["rports"]]
        self.case = case

    def wmask(self, i):
        wp = self.case["wports"][i]
        en = self.wp[i]["en"]
        if wp["gran"] is None:
            return self.full if en & 1 else 0
        m = 0
        gb = wp["gbits"]
        for g in range(self.w // gb if self.w else 0):
            if (en >> g) & 1:
                m |= ((1 << gb) - 1) << (g * gb)
        return m

    def comb(self):
        for i, rp in enumerate(self.case["rports"]):
            if rp["dom"] == "comb":
                a = self.rp[i]["addr"]
                if a < self.depth:
                    self.rp[i]["data"], self.rp[i]["x"] = self.rows[a], self.rowx[a]
                else:
                    self.rp[i]["data"], self.rp[i]["x"] = 0, self.full

    def edge(self, doms, stats):
        # writes of this instant, from pre-edge inputs
        writes = []       # (port index, addr, mask, data)
        for i, wp in enumerate(self.case["wports"]):
            if wp["dom"] in doms:
                m = self.wmask(i)
                if m:
                    writes.append((i, self.wp[i]["addr"], m, self.wp[i]["data"]))
        # synchronous reads (old contents, then transparent overlays)
        for i, rp in enumerate(self.case["rports"]):
            if rp["dom"] in doms and self.rp[i]["en"]:
                a = self.rp[i]["addr"]
                if a >= self.depth:
                    self.rp[i]["data"], self.rp[i]["x"] = 0, self.full
                    stats["read_beyond_depth"] = True
                    continue
                d, x = self.rows[a], self.rowx[a]
                for (j, wa, m, wd) in writes:
                    if wa != a:
                        continue
                    stats["collision"] = True
                    wdom = self.case["wports"][j]["dom"]
                    if wdom != rp["dom"]:
                        x |= m                       # written from another domain in the same instant: undefined
                        stats["cross_domain_collision"] = True
                    elif j in rp["transparent"]:
                        d = (d & ~m) | (wd & m)
                        x &= ~m
                        stats["transparent_collision"] = True
                    else:
                        stats["opaque_collision"] = True
                # two transparent ports writing the same bit: unspecified
                seen = 0
                for (j, wa, m, wd) in writes:
                    if wa == a and self.case["wports"][j]["dom"] == rp["dom"] and j in rp["transparent"]:
                        x |= seen & m
                        seen |= m
                self.rp[i]["data"], self.rp[i]["x"] = d, x
        # commit writes
        touched = {}
        for (j, wa, m, wd) in writes:
            if wa >= self.depth:
                stats["write_beyond_depth"] = True
                continue
            dup = touched.get(wa, 0) & m
            if dup:
                self.rowx[wa] |= dup
                stats["write_write_collision"] = True
            self.rows[wa] = (self.rows[wa] & ~m) | (wd & m)
            self.rowx[wa] = (self.rowx[wa] & ~(m & ~dup))
            touched[wa] = touched.get(wa, 0) | m
            if m != self.full: stats["partial_write"] = True
        self.comb()


def build(case, decoy=False):
    sh = build_shape(case["shape"])
    w = shape_width(case["shape"])
    init = [to_py(case["shape"], sh, v) for v in case["init"]]
    m = Module()
    cds = {"a": ClockDomain("a", reset_less=True), "b": ClockDomain("b", reset_less=True)}
    m.domains += cds.values()
    if decoy:
        # another memory with write ports of its own, declared first in the same module: port numbering and
        # transparency masks of the memory under test must not depend on it
        m.submodules.decoy = dm = Memory(shape=2, depth=2, init=[1, 2])
        dw0, dw1 = dm.write_port(domain="a"), dm.write_port(domain="a")
        dr = dm.read_port(domain="a", transparent_for=[dw1])
        keep = Signal(2, name="decoy_keep")
        m.d.comb += [dw0.addr.eq(0), dw1.addr.eq(1), keep.eq(dr.data)]
    m.submodules.mem = mem = Memory(shape=sh, depth=case["depth"], init=init)
    wps = [mem.write_port(domain=wp["dom"], granularity=wp["gran"]) for wp in case["wports"]]
    # (the transparency set is given as a list, a tuple or a one-shot iterator, by position of the port)
    forms = [list, tuple, iter]
    rps = [mem.read_port(domain=rp["dom"], transparent_for=forms[k % 3]([wps[j] for j in rp["transparent"]]))
           for k, rp in enumerate(case["rports"])]
    return m, cds, mem, wps, rps, sh


def mem_body(ctx, case):
    w = shape_width(case["shape"])
    with warnings.catch_warnings():
        warnings.simplefilter("ignore")
        m, cds, mem, wps, rps, sh = build(case)
        if elaborated_before(case, m):
            ctx.tally("reuse:design-elaborated-before")
        sim = Simulator(m)
    model = Model(case)
    model.comb()
    stats = {}
    fail = []
    full = (1 << w) - 1

    def compare(c, step, ev):
        for i, rp in enumerate(rps):
            got = c.get(Value.cast(rp.data)) & full
            exp, x = model.rp[i]["data"], model.rp[i]["x"]
            if (got ^ exp) & ~x & full:
                return Mismatch("read-port-data", step=step, event=ev, port=i, port_config=case["rports"][i],
                                expected=exp, unspecified_mask=x, actual=got, shape=case["shape"], depth=case["depth"])
        for r in range(case["depth"]):
            got = c.get(Value.cast(mem.data[r])) & full
            if (got ^ model.rows[r]) & ~model.rowx[r] & full:
                return Mismatch("row-contents", step=step, event=ev, row=r, expected=model.rows[r],
                                unspecified_mask=model.rowx[r], actual=got, shape=case["shape"], depth=case["depth"],
                                wports=case["wports"])
        return None

    async def tb(c):
        mm = compare(c, -1, "initial")
        if mm: fail.append(mm); return
        for step, ev in enumerate(case["events"]):
            if ev[0] == "w":
                _, i, a, d, en = ev
                c.set(wps[i].addr, a); c.set(Value.cast(wps[i].data), d); c.set(wps[i].en, en)
                model.wp[i].update(addr=a, data=d, en=en)
            elif ev[0] == "r":
                _, i, a, en = ev
                c.set(rps[i].addr, a)
                model.rp[i]["addr"] = a
                if case["rports"][i]["dom"] != "comb":
                    c.set(rps[i].en, int(en))
                    model.rp[i]["en"] = int(en)
                model.comb()
            elif ev[0] == "clk":
                doms = ev[1]
                sigs = Cat(*[cds[d].clk for d in doms])
                c.set(sigs, (1 << len(doms)) - 1)
                model.edge(set(doms), stats)
                mm = compare(c, step, ev + ["rise"])
                if mm: fail.append(mm); return
                c.set(sigs, 0)
                if len(doms) > 1: stats["coincident_edges"] = True
            elif ev[0] == "poke":
                r, v = ev[1], ev[2]
                alias = (ev[3] if len(ev) > 3 and case["shape"][0] in ("u", "s") else 0) << w
                if alias: stats["poke_alias"] = True
                pv = to_py(case["shape"], sh, v)
                c.set(mem.data[r], pv + alias if alias else pv)
                model.rows[r], model.rowx[r] = v, 0
                model.comb()
                stats["poke"] = True
            elif ev[0] == "peek":
                got = c.get(mem.data[ev[1]])
                exp = to_py(case["shape"], sh, model.rows[ev[1]])
                if not model.rowx[ev[1]] and got != exp:
                    fail.append(Mismatch("row-peek", row=ev[1], expected=repr(exp), actual=repr(got))); return
            mm = compare(c, step, ev)
            if mm: fail.append(mm); return
    with warnings.catch_warnings():
        warnings.simplefilter("ignore")
        sim.add_testbench(tb)
        sim.run()
    if fail:
        raise fail[0]
    keys = ["mem:shape-" + case["shape"][0], "mem:depth%d" % min(case["depth"], 3)]
    if case["shape"][0] == "structcls" and default_row(case["shape"]) and len(case["init"]) < case["depth"]:
        keys.append("mem:unlisted-rows-with-nonzero-class-defaults")
    keys += ["mem:" + k for k, v in stats.items() if v]
    if any(rp["transparent"] for rp in case["rports"]): keys.append("mem:transparency-set")
    if any(wp["gran"] is not None and wp["gbits"] < w for wp in case["wports"]): keys.append("mem:fine-granularity")
    if any(rp["dom"] == "comb" for rp in case["rports"]): keys.append("mem:async-read-port")
    if case["depth"] & (case["depth"] - 1) and case["depth"] > 2: keys.append("mem:non-pow2-depth")
    if len({wp["dom"] for wp in case["wports"]}) > 1: keys.append("mem:write-ports-in-two-domains")
    nontrivial = ("mem:transparency-set" in keys or "mem:fine-granularity" in keys) and stats.get("collision", False)
    ctx.note(case, nontrivial, *keys, evals=len(case["events"]))


def rtlil_body(ctx, case):
    """The same memory, converted to RTLIL and executed by the independent evaluator, against the simulator."""
    from amaranth.hdl import Fragment
    from amaranth.back import rtlil
    from vlib import rtlil_read as RR, rtlil_eval as RE
    w = shape_width(case["shape"])
    full = (1 << w) - 1
    with warnings.catch_warnings():
        warnings.simplefilter("ignore")
        decoy = bool(case.get("decoy"))
        m, cds, mem, wps, rps, sh = build(case, decoy)
        sim = Simulator(m)
        m2, cds2, mem2, wps2, rps2, sh2 = build(case, decoy)
        pd = {}
        for i, wp in enumerate(wps2):
            pd[f"w{i}_addr"] = (wp.addr, None); pd[f"w{i}_data"] = (Value.cast(wp.data), None); pd[f"w{i}_en"] = (wp.en, None)
        for i, rp in enumerate(rps2):
            pd[f"r{i}_addr"] = (rp.addr, None); pd[f"r{i}_data"] = (Value.cast(rp.data), None)
            if case["rports"][i]["dom"] != "comb":
                pd[f"r{i}_en"] = (rp.en, None)
        for d in ("a", "b"):
            pd[f"clk_{d}"] = (cds2[d].clk, None)
        text, _ = rtlil.convert_fragment(Fragment.get(m2, None), ports=pd, name="top")
    ev = RE.Evaluator(RR.parse(text))
    init = {"\\" + n: (s.init & ((1 << len(s)) - 1)) for n, (s, _) in pd.items() if "\\" + n in ev.inputs}
    ev.set_inputs(init)
    mempaths = [k for k in ev.mems if "decoy" not in "".join(k)]
    mempath = mempaths[0] if mempaths else None
    stats = dict(compared=0, masked=0, collision=False)
    fail = []

    def rset(upd):
        upd = {"\\" + k: v for k, v in upd.items() if "\\" + k in ev.inputs}
        if upd:
            ev.set_inputs(upd)

    def compare(c, step, evn):
        for i, rp in enumerate(rps):
            nm = ("\\" + f"r{i}_data",)
            if nm not in ev.wires:
                continue
            got = c.get(Value.cast(rp.data)) & full
            rv, rx = ev.get(nm)
            stats["compared"] += 1
            if rx: stats["masked"] += 1
            if (got ^ rv) & ~rx & full:
                return Mismatch("simulator-and-rtlil-disagree", step=step, event=evn, port=i, port_config=case["rports"][i],
                                wports=case["wports"], simulator=got, rtlil=rv, rtlil_undef_mask=rx, shape=case["shape"],
                                depth=case["depth"])
        return None

    async def tb(c):
        waddr = {}
        raddr = {}
        for step, evn in enumerate(case["events"]):
            if evn[0] == "w":
                _, i, a, d, en = evn
                c.set(wps[i].addr, a); c.set(Value.cast(wps[i].data), d); c.set(wps[i].en, en)
                rset({f"w{i}_addr": a, f"w{i}_data": d, f"w{i}_en": en})
                waddr[i] = (a, en)
            elif evn[0] == "r":
                _, i, a, en = evn
                c.set(rps[i].addr, a)
                upd = {f"r{i}_addr": a}
                if case["rports"][i]["dom"] != "comb":
                    c.set(rps[i].en, int(en)); upd[f"r{i}_en"] = int(en)
                rset(upd)
                raddr[i] = a
            elif evn[0] == "clk":
                doms = evn[1]
                if any(waddr.get(i, (None, 0))[1] and waddr[i][0] in raddr.values() for i in waddr): stats["collision"] = True
                c.set(Cat(*[cds[d].clk for d in doms]), (1 << len(doms)) - 1)
                rset({f"clk_{d}": 1 for d in doms})
                mm = compare(c, step, evn + ["rise"])
                if mm: fail.append(mm); return
                c.set(Cat(*[cds[d].clk for d in doms]), 0)
                rset({f"clk_{d}": 0 for d in doms})
            elif evn[0] == "poke" and mempath is not None:
                r, v = evn[1], evn[2]
                c.set(mem.data[r], to_py(case["shape"], sh, v))
                ev.set_mem_row(mempath, r, v)
            mm = compare(c, step, evn)
            if mm: fail.append(mm); return
    with warnings.catch_warnings():
        warnings.simplefilter("ignore")
        sim.add_testbench(tb)
        sim.run()
    if fail:
        raise fail[0]
    keys = ["rtl:memory"] + (["rtl:second-memory-in-module"] if decoy else [])
    if any(len(rp["transparent"]) >= 1 for rp in case["rports"]) and len(case["wports"]) >= 2: keys.append("rtl:transparency-with-several-write-ports")
    if stats["collision"]: keys.append("rtl:collision")
    if any(rp["dom"] == "comb" for rp in case["rports"]): keys.append("rtl:async-read")
    ctx.extra["rtlil_comparisons"] = ctx.extra.get("rtlil_comparisons", 0) + stats["compared"]
    ctx.extra["rtlil_masked"] = ctx.extra.get("rtlil_masked", 0) + stats["masked"]
    nontrivial = stats["collision"] and bool(case["rports"])
    ctx.note(case, nontrivial, *keys, evals=len(case["events"]))


def parts(tier):
    q = tier == "quick"
    # deterministic process order (insertion order) so that an order-dependent failure is reproducible
    from vlib import simorder
    simorder.install()
    simorder.set_policy(None)
    return [
        Part("memories", "hyp", strategy=mem_cases(30 if q else 80), body=mem_body, n=250 if q else 2500),
        Part("rtlil", "hyp", strategy=mem_cases(30 if q else 80), body=rtlil_body, n=120 if q else 1500),
    ]


REQUIRED = ["mem:shape-u", "mem:shape-s", "mem:shape-array", "mem:shape-struct", "mem:shape-structcls",
            "mem:unlisted-rows-with-nonzero-class-defaults", "mem:depth0", "mem:depth1", "mem:non-pow2-depth",
            "mem:transparency-set", "mem:fine-granularity", "mem:async-read-port", "mem:collision", "mem:transparent_collision",
            "mem:opaque_collision", "mem:cross_domain_collision", "mem:write_beyond_depth", "mem:read_beyond_depth",
            "mem:partial_write", "mem:poke", "mem:poke_alias", "mem:coincident_edges", "mem:write_write_collision",
            "mem:write-ports-in-two-domains", "rtl:memory", "rtl:transparency-with-several-write-ports", "rtl:collision",
            "rtl:async-read", "rtl:second-memory-in-module"]
