"""C12 — Synchronous FIFOs refine a bounded queue for every strobe sequence."""
import warnings, collections
from hypothesis import strategies as st

from amaranth.hdl import Module, ClockDomain
from amaranth.lib.fifo import SyncFIFO, SyncFIFOBuffered
from amaranth.sim import Simulator

from vlib.reuse import elaborated_before
from vlib.runner import Part, Mismatch, HarnessError
from vlib.simdrv import snapshot, restore
from vlib.gen_expr import INT, BOOL, PICK

PID = "C12"
LEVEL = "model_checking"
RULE = ("(a) graph: breadth-first exploration of the COMPLETE reachable state graph of the implementation "
        "running in the simulator (state = every signal and memory row of the elaborated design, saved and "
        "restored through the engine's slots) x monitor state, with every input combination (w_en, r_en, "
        "w_data in all values) applied at every state, for SyncFIFO and SyncFIFOBuffered, depth 0..5 x width 0..1 and "
        "depth 1..3 x width 2 (quick); depth 0..7 x width 0..1, depth<=4 x width 2, depth<=3 x width 3 (thorough). (b) walks: Hypothesis lists of cycles "
        "(w_en, w_data, r_en) for depth<=17, width<=8, biased to bursts so that full, empty and wrap-around "
        "occur, with occasional domain resets in mid-stream, driven through the classic port names or through the stream "
        "interfaces (.payload and its shortcut .p). (c) pairs: two queues (any kinds / depths / widths, often the same) as sibling "
        "submodules of one design, each with its own strobe sequence and its own monitor. Monitor = collections.deque + age counter (FIFO order, no loss/duplication, r_rdy => r_data is "
        "the oldest, w_rdy => held<depth, level=r_level=w_level=len, w_rdy whenever free>=1 (SyncFIFO) / >=2 "
        "(buffered), head readable within two cycles). Non-trivial transition: one on which an entry is written "
        "or read; distinct by (state, input).")
ASSUMPTIONS = [
    "One clock domain. The state graph is explored without resets; the walks pulse the domain reset now and then and expect "
    "an empty queue that carries on as a queue afterwards (every state register returns to its initial value, C03).",
    "State snapshots rely on the simulator keeping all state in engine._state.slots; checked at run time (exit 2 otherwise).",
]
QUICK_SHARDS = 4
THOROUGH_SHARDS = 16

CLASSES = {"SyncFIFO": SyncFIFO, "SyncFIFOBuffered": SyncFIFOBuffered}


class Monitor:
    """Bounded-queue reference. State is (tuple(queue), age)."""
    def __init__(self, kind, depth, width):
        self.kind, self.depth, self.width = kind, depth, width

    def check_outputs(self, q, age, out, where):
        """Invariants on the settled outputs for queue contents q."""
        n = len(q)
        if out["r_rdy"]:
            if n == 0:
                raise Mismatch("r_rdy-while-empty", **where)
            if out["r_data"] != q[0]:
                raise Mismatch("r_data-not-oldest", expected=q[0], actual=out["r_data"], **where)
        if out["w_rdy"] and n >= self.depth:
            raise Mismatch("w_rdy-while-full", held=n, **where)
        if self.depth > 0:
            for name in ("level", "r_level", "w_level"):
                if out[name] != n:
                    raise Mismatch("level-mismatch", which=name, expected=n, actual=out[name], **where)
        free = self.depth - n
        need = 1 if self.kind == "SyncFIFO" else 2
        if self.depth == 1 and self.kind == "SyncFIFOBuffered":
            need = 1
        if free >= need and self.depth > 0 and not out["w_rdy"]:
            raise Mismatch("w_rdy-not-live", free=free, **where)
        if n > 0 and age >= 2 and not out["r_rdy"]:
            raise Mismatch("head-not-readable-within-two-cycles", age=age, **where)

    def edge(self, q, age, inp, out):
        """Queue after a clock edge with inputs inp and pre-edge outputs out."""
        q = list(q)
        w_en, w_data, r_en = inp
        popped = pushed = False
        if r_en and out["r_rdy"]:
            q.pop(0)
            popped = True
        if w_en and out["w_rdy"]:
            q.append(w_data)
            pushed = True
        if not q:
            age = 0
        elif popped or (pushed and len(q) == 1):
            age = 0          # a new entry has just become the oldest
        else:
            age = min(age + 1, 3)
        return tuple(q), age, popped, pushed


def make(kind, depth, width, case=None):
    with warnings.catch_warnings():
        warnings.simplefilter("ignore")
        m = Module()
        cd = ClockDomain("sync")
        m.domains += cd
        m.submodules.fifo = fifo = CLASSES[kind](width=width, depth=depth)
        if case is not None:
            elaborated_before(case, m, every=3)
        sim = Simulator(m)
    return sim, cd, fifo


OUT_NAMES = ["w_rdy", "r_rdy", "r_data", "level", "r_level", "w_level"]


def read_outputs(ctx, fifo):
    return {n: ctx.get(getattr(fifo, n)) for n in OUT_NAMES}


# ------------------------------------------------------------------------------------------ graph
def graph_configs(tier):
    if tier == "quick":
        cfgs = [(k, d, w) for k in CLASSES for d in (0, 1, 2, 3, 4, 5) for w in (0, 1)]
        cfgs += [(k, d, 2) for k in CLASSES for d in (1, 2, 3)]
    else:
        cfgs = [(k, d, w) for k in CLASSES for d in range(0, 8) for w in (0, 1)]
        cfgs += [(k, d, 2) for k in CLASSES for d in (1, 2, 3, 4)]
        cfgs += [(k, d, 3) for k in CLASSES for d in (1, 2, 3)]
    # biggest first so that shards are balanced
    return sorted(cfgs, key=lambda c: -(c[1] ** 2) * (1 << (c[1] * c[2])))


def graph_cases(ctx):
    for i, c in enumerate(graph_configs(ctx.tier)):
        if i % ctx.nshards == ctx.shard:
            yield list(c)


def graph_body(ctx, case):
    kind, depth, width = case
    sim, cd, fifo = make(kind, depth, width)
    mon = Monitor(kind, depth, width)
    inputs = [(we, wd, re) for we in (0, 1) for wd in range(1 << width) for re in (0, 1)]
    stats = dict(states=0, transitions=0, nontrivial=0, full=False, empty_after_use=False, wrap=False, rw=False)
    fail = []

    async def tb(c):
        for n in OUT_NAMES + ["w_en", "w_data", "r_en"]:
            c.get(getattr(fifo, n))
        c.get(cd.clk)
        s0 = (snapshot(sim), (), 0)
        seen = {s0}
        frontier = collections.deque([(s0, 0)])
        writes_seen = 0
        while frontier:
            (snap, q, age), nwr = frontier.popleft()
            stats["states"] += 1
            for inp in inputs:
                restore(sim, snap)
                c.set(fifo.w_data, inp[1]); c.set(fifo.w_en, inp[0]); c.set(fifo.r_en, inp[2])
                out = read_outputs(c, fifo)
                where = dict(config=case, queue=list(q), inputs=list(inp), outputs=out)
                try:
                    mon.check_outputs(q, age, out, where)
                except Mismatch as mm:
                    fail.append(mm); return
                c.set(cd.clk, 1); c.set(cd.clk, 0)
                c.set(fifo.w_en, 0); c.set(fifo.r_en, 0); c.set(fifo.w_data, 0)
                q2, age2, popped, pushed = mon.edge(q, age, inp, out)
                stats["transitions"] += 1
                if popped or pushed:
                    stats["nontrivial"] += 1
                if popped and pushed:
                    stats["rw"] = True
                if len(q2) == depth and depth > 0:
                    stats["full"] = True
                if not q2 and popped:
                    stats["empty_after_use"] = True
                n2 = nwr + (1 if pushed else 0)
                if n2 > depth:
                    stats["wrap"] = True
                key = (snapshot(sim), q2, age2)
                if key not in seen:
                    seen.add(key)
                    frontier.append((key, min(n2, depth + 1)))
                    if len(seen) > 400000:
                        raise HarnessError("state cap hit in C12 graph exploration")
        # final check of outputs in every state happens above (each state is expanded)
    with warnings.catch_warnings():
        warnings.simplefilter("ignore")
        sim.add_testbench(tb)
        sim.run()
    if fail:
        raise fail[0]
    keys = [f"graph:{kind}", f"graph:depth{depth}", f"graph:width{width}"]
    for k in ("full", "empty_after_use", "wrap", "rw"):
        if stats[k]:
            keys.append("graph:" + k)
    ctx.extra["states"] = ctx.extra.get("states", 0) + stats["states"]
    ctx.extra["transitions"] = ctx.extra.get("transitions", 0) + stats["transitions"]
    ctx.extra.setdefault("graph_configs", []).append({"config": case, "states": stats["states"],
                                                      "transitions": stats["transitions"], "exhaustive": True})
    ctx.note_bulk(stats["transitions"], stats["nontrivial"],
                  {"config": case, "states": stats["states"], "transitions": stats["transitions"]}, *keys)


# ------------------------------------------------------------------------------------------ walks
@st.composite
def walk_cases(draw, nsteps):
    kind = PICK(draw, list(CLASSES))
    depth = draw(st.one_of(INT(0, 5), INT(0, 17)))
    width = draw(st.one_of(INT(0, 2), INT(0, 8)))
    steps = []
    mode = 0
    for _ in range(nsteps):
        if draw(INT(0, 7)) == 0:
            mode = draw(INT(0, 3))       # 0 random, 1 fill burst, 2 drain burst, 3 both
        we = 1 if mode in (1, 3) and draw(INT(0, 5)) else (draw(INT(0, 1)) if mode == 0 else 0)
        re = 1 if mode in (2, 3) and draw(INT(0, 5)) else (draw(INT(0, 1)) if mode == 0 else 0)
        steps.append([we, draw(INT(0, (1 << width) - 1)), re])
    # a few domain resets in mid-stream: the queue is empty afterwards and carries on as a queue; and the route by
    # which the testbench reaches the ports: the classic names, or the stream interfaces (.payload or its shortcut .p)
    resets = sorted(set(draw(INT(0, nsteps - 1)) for _ in range(draw(INT(0, 2))))) if draw(INT(0, 2)) == 0 else []
    return {"kind": kind, "depth": depth, "width": width, "steps": steps, "resets": resets, "route": draw(INT(0, 2))}


def walk_body(ctx, case):
    kind, depth, width = case["kind"], case["depth"], case["width"]
    sim, cd, fifo = make(kind, depth, width, case)
    mon = Monitor(kind, depth, width)
    fail = []
    st_ = dict(full=False, empty=False, wrap=False, moved=0, nwr=0, reset_nonempty=False)

    route = case.get("route", 0)
    resets = set(case.get("resets", []))
    if route == 0:
        w_data, w_en, r_en = fifo.w_data, fifo.w_en, fifo.r_en
    else:
        ws, rs = fifo.w_stream, fifo.r_stream
        w_data, w_en, r_en = (ws.payload if route == 1 else ws.p), ws.valid, rs.ready

    async def tb(c):
        q, age = (), 0
        for i, inp in enumerate(case["steps"]):
            c.set(w_data, inp[1]); c.set(w_en, inp[0]); c.set(r_en, inp[2])
            out = read_outputs(c, fifo)
            if route:
                via = {"w_rdy": c.get(ws.ready), "r_rdy": c.get(rs.valid), "r_data": c.get(rs.payload if route == 1 else rs.p)}
                if any(via[k] != out[k] for k in via):
                    fail.append(Mismatch("stream-interface-differs-from-ports", step=i, streams=via,
                                         ports={k: out[k] for k in via})); return
            try:
                mon.check_outputs(q, age, out, dict(step=i, queue=list(q), inputs=inp, outputs=out))
            except Mismatch as mm:
                fail.append(mm); return
            if i in resets:
                c.set(cd.rst, 1)
                c.set(cd.clk, 1); c.set(cd.clk, 0)
                c.set(cd.rst, 0)
                if q: st_["reset_nonempty"] = True
                q, age = (), 0
                continue
            c.set(cd.clk, 1); c.set(cd.clk, 0)
            q, age, popped, pushed = mon.edge(q, age, inp, out)
            st_["moved"] += popped + pushed
            st_["nwr"] += pushed
            if depth and len(q) == depth:
                st_["full"] = True
            if popped and not q:
                st_["empty"] = True
        # drain: everything written must come out, in order
        c.set(w_en, 0); c.set(r_en, 1)
        for _ in range(len(q) + 3):
            out = read_outputs(c, fifo)
            try:
                mon.check_outputs(q, age, out, dict(step="drain", queue=list(q), outputs=out))
            except Mismatch as mm:
                fail.append(mm); return
            c.set(cd.clk, 1); c.set(cd.clk, 0)
            q, age, popped, pushed = mon.edge(q, age, (0, 0, 1), out)
        if q:
            fail.append(Mismatch("entries-never-drained", left=list(q)))
    with warnings.catch_warnings():
        warnings.simplefilter("ignore")
        sim.add_testbench(tb)
        sim.run()
    if fail:
        raise fail[0]
    keys = [f"walk:{kind}"]
    if st_["full"]: keys.append("walk:full")
    if st_["empty"]: keys.append("walk:empty")
    if st_["nwr"] > depth > 0: keys.append("walk:wrap")
    if depth & (depth - 1) and depth > 2: keys.append("walk:non-pow2-depth")
    if st_["reset_nonempty"]: keys.append("walk:reset-of-a-non-empty-queue")
    if route: keys.append("walk:through-stream-interfaces" + ("-shortcut" if route == 2 else ""))
    ctx.extra["traces_validated_against_impl"] = ctx.extra.get("traces_validated_against_impl", 0) + 1
    ctx.note(case, st_["full"] and st_["empty"], *keys, evals=len(case["steps"]))


# ------------------------------------------------------------------------------------------ pairs
# Two queues in sibling submodules of one design (any two kinds / depths / widths, same names inside), each driven by
# its own strobe sequence in the same clock domain and each judged by its own monitor: state that leaks from one
# instance into the other (class-level attributes, names colliding in the hierarchy, a shared memory) shows here only.
@st.composite
def pair_cases(draw, nsteps):
    a = draw(walk_cases(nsteps)); b = draw(walk_cases(nsteps))
    if draw(INT(0, 1)):
        b["kind"] = a["kind"]
        if draw(INT(0, 1)):
            b["depth"], b["width"] = a["depth"], a["width"]
            b["steps"] = [[s[0], draw(INT(0, (1 << a["width"]) - 1)), s[2]] for s in b["steps"]]
    a["resets"] = b["resets"] = []
    order = draw(INT(0, 1))
    return {"a": a, "b": b, "order": order}


def pair_body(ctx, case):
    ca, cb = case["a"], case["b"]
    with warnings.catch_warnings():
        warnings.simplefilter("ignore")
        m = Module()
        cd = ClockDomain("sync")
        m.domains += cd
        fa = CLASSES[ca["kind"]](width=ca["width"], depth=ca["depth"])
        fb = CLASSES[cb["kind"]](width=cb["width"], depth=cb["depth"])
        if case["order"]:
            m.submodules.b = fb; m.submodules.a = fa
        else:
            m.submodules.a = fa; m.submodules.b = fb
        elaborated_before(case, m, every=3)
        sim = Simulator(m)
    fifos = [(fa, ca, Monitor(ca["kind"], ca["depth"], ca["width"])), (fb, cb, Monitor(cb["kind"], cb["depth"], cb["width"]))]
    fail = []
    moved = [0, 0]

    async def tb(c):
        qs = [((), 0), ((), 0)]
        n = len(ca["steps"])
        for i in range(n + max(ca["depth"], cb["depth"]) + 4):
            outs = []
            for k, (f, cs, mon) in enumerate(fifos):
                inp = cs["steps"][i] if i < n else [0, 0, 1]
                c.set(f.w_data, inp[1]); c.set(f.w_en, inp[0]); c.set(f.r_en, inp[2])
            for k, (f, cs, mon) in enumerate(fifos):
                inp = cs["steps"][i] if i < n else [0, 0, 1]
                out = read_outputs(c, f)
                outs.append((inp, out))
                try:
                    mon.check_outputs(qs[k][0], qs[k][1], out, dict(step=i, which="ab"[k], queue=list(qs[k][0]), inputs=inp, outputs=out))
                except Mismatch as mm:
                    fail.append(mm); return
            c.set(cd.clk, 1); c.set(cd.clk, 0)
            for k, (f, cs, mon) in enumerate(fifos):
                q, age, popped, pushed = mon.edge(qs[k][0], qs[k][1], outs[k][0], outs[k][1])
                qs[k] = (q, age)
                moved[k] += popped + pushed
        for k in range(2):
            if qs[k][0]:
                fail.append(Mismatch("entries-never-drained", which="ab"[k], left=list(qs[k][0]))); return
    with warnings.catch_warnings():
        warnings.simplefilter("ignore")
        sim.add_testbench(tb)
        sim.run()
    if fail:
        raise fail[0]
    keys = ["pair:any"]
    if ca["kind"] == cb["kind"]: keys.append("pair:same-class")
    if (ca["kind"], ca["depth"], ca["width"]) == (cb["kind"], cb["depth"], cb["width"]): keys.append("pair:same-configuration")
    if ca["kind"] != cb["kind"]: keys.append("pair:different-classes")
    if moved[0] and moved[1]: keys.append("pair:both-moved")
    ctx.note(case, bool(moved[0] and moved[1]), *keys, evals=len(ca["steps"]))


def parts(tier):
    q = tier == "quick"
    return [
        Part("graph", "enum", cases=graph_cases, body=graph_body, exhaustive=True),
        Part("walks", "hyp", strategy=walk_cases(60 if q else 200), body=walk_body, n=60 if q else 300),
        Part("pairs", "hyp", strategy=pair_cases(40 if q else 120), body=pair_body, n=40 if q else 200),
    ]


REQUIRED = ["graph:SyncFIFO", "graph:SyncFIFOBuffered", "graph:full", "graph:empty_after_use", "graph:wrap",
            "graph:rw", "graph:depth0", "graph:depth3", "walk:full", "walk:empty", "walk:wrap", "walk:non-pow2-depth",
            "walk:reset-of-a-non-empty-queue", "walk:through-stream-interfaces", "walk:through-stream-interfaces-shortcut",
            "pair:same-class", "pair:same-configuration", "pair:different-classes", "pair:both-moved"]


def coverage_extra(tier, counters, extra):
    return {"exhaustive": True, "states": int(extra.get("states", 0)), "transitions": int(extra.get("transitions", 0)),
            "traces_validated_against_impl": int(extra.get("traces_validated_against_impl", 0)),
            "explanation": "states/transitions are those of the real implementation executed in the simulator "
                           "(not of an abstract model); every configuration listed in graph_configs was explored to closure."}
