"""C13 — Asynchronous FIFOs are safe under every interleaving of their clocks."""
import warnings, collections
from hypothesis import strategies as st

from amaranth.hdl import Module, ClockDomain, Cat, Fragment
from amaranth.lib.fifo import AsyncFIFO, AsyncFIFOBuffered
from amaranth.back import rtlil
from amaranth.sim import Simulator

from vlib.reuse import elaborated_before
from vlib.runner import Part, Mismatch, HarnessError
from vlib.simdrv import snapshot, restore
from vlib.gen_expr import INT, BOOL, PICK

PID = "C13"
LEVEL = "model_checking"
RULE = ("Events are {write-clock edge, read-clock edge, both edges in the same instant} with (w_en, w_data, r_en) "
        "set beforehand; the harness owns both clocks (ctx.set on the clock signals, simultaneous edges via one "
        "ctx.set on Cat(w_clk, r_clk)). (a) graph: complete reachable state graph (implementation state x monitor "
        "queue) for the smallest depths, every event x every input at every state; a state cap is reported if hit. "
        "(b) walks: Hypothesis event lists (bursts of one clock, simultaneous edges) for depth<=16, width<=8, with default or caller-chosen domain names and with or without exact_depth=True, followed "
        "by a drain phase: writing stops and alternating edges with r_en=1 must deliver everything within len+10 rounds. "
        "(c) elaboration: every depth 0..40 x exact_depth either raises ValueError in the constructor or elaborates, "
        "simulates one step and converts to RTLIL. (d) pairs: two FIFOs as sibling submodules over the same two clock "
        "domains, the second one usually crossing in the other direction, each with its own inputs and its own monitor. Monitor = deque (order, no loss/duplication, r_rdy => r_data oldest, "
        "w_rdy => held<depth, levels within 0..depth). Non-trivial: transitions/walk steps that move an entry; walks "
        "with simultaneous edges, bursts >=3 of each clock, full and empty.")
ASSUMPTIONS = [
    "Inputs change only between events, never in the same instant as a clock edge (a race no document defines).",
    "Write-domain reset is held low (reset behaviour: C03/C17).",
]
QUICK_SHARDS = 4
THOROUGH_SHARDS = 16
CLASSES = {"AsyncFIFO": AsyncFIFO, "AsyncFIFOBuffered": AsyncFIFOBuffered}
OUTS = ["w_rdy", "r_rdy", "r_data", "r_level", "w_level"]


def make(kind, depth, width, exact=False, case=None):
    with warnings.catch_warnings():
        warnings.simplefilter("ignore")
        m = Module()
        # the domain names are parameters of the FIFOs: the defaults, or names of the caller's choosing
        rn, wn = (case or {}).get("domains") or ["read", "write"]
        rcd, wcd = ClockDomain(rn), ClockDomain(wn)
        m.domains += [rcd, wcd]
        kw = {} if (rn, wn) == ("read", "write") else {"r_domain": rn, "w_domain": wn}
        m.submodules.fifo = fifo = CLASSES[kind](width=width, depth=depth, exact_depth=exact, **kw)
        if case is not None:
            elaborated_before(case, m, every=3)
        sim = Simulator(m)
    return sim, rcd, wcd, fifo


def check_outputs(fifo, q, out, where):
    n = len(q)
    depth = fifo.depth
    if out["r_rdy"]:
        if n == 0:
            raise Mismatch("r_rdy-while-empty", **where)
        if out["r_data"] != q[0]:
            raise Mismatch("r_data-not-oldest", expected=q[0], actual=out["r_data"], **where)
    if out["w_rdy"] and n >= depth:
        raise Mismatch("w_rdy-while-full", held=n, depth=depth, **where)
    for name in ("r_level", "w_level"):
        if not 0 <= out[name] <= depth:
            raise Mismatch("level-out-of-range", which=name, actual=out[name], depth=depth, **where)


def apply_event(c, fifo, rcd, wcd, ev):
    if ev == "w":
        c.set(wcd.clk, 1); c.set(wcd.clk, 0)
    elif ev == "r":
        c.set(rcd.clk, 1); c.set(rcd.clk, 0)
    else:
        both = Cat(wcd.clk, rcd.clk)
        c.set(both, 3); c.set(both, 0)


def model_step(q, ev, inp, out):
    q = list(q)
    w_en, w_data, r_en = inp
    popped = pushed = False
    if ev in ("r", "b") and r_en and out["r_rdy"]:
        q.pop(0); popped = True
    if ev in ("w", "b") and w_en and out["w_rdy"]:
        q.append(w_data); pushed = True
    return tuple(q), popped, pushed


def touch(c, fifo, rcd, wcd):
    for n in OUTS + ["w_en", "w_data", "r_en"]:
        c.get(getattr(fifo, n))
    c.get(rcd.clk); c.get(wcd.clk); c.get(rcd.rst); c.get(wcd.rst)


# ------------------------------------------------------------------------------------------ graph
def graph_configs(tier):
    if tier == "quick":
        return [("AsyncFIFO", 1, 0), ("AsyncFIFO", 1, 1), ("AsyncFIFO", 2, 0), ("AsyncFIFO", 2, 1),
                ("AsyncFIFOBuffered", 2, 0), ("AsyncFIFOBuffered", 2, 1), ("AsyncFIFOBuffered", 3, 0), ("AsyncFIFO", 0, 1)]
    return [("AsyncFIFO", 1, 0), ("AsyncFIFO", 1, 1), ("AsyncFIFO", 2, 0), ("AsyncFIFO", 2, 1), ("AsyncFIFO", 4, 0),
            ("AsyncFIFO", 4, 1), ("AsyncFIFO", 2, 2), ("AsyncFIFOBuffered", 2, 0), ("AsyncFIFOBuffered", 2, 1),
            ("AsyncFIFOBuffered", 3, 0), ("AsyncFIFOBuffered", 3, 1), ("AsyncFIFOBuffered", 5, 0), ("AsyncFIFO", 8, 0),
            ("AsyncFIFO", 0, 1), ("AsyncFIFOBuffered", 0, 0), ("AsyncFIFOBuffered", 5, 1)]


def graph_cases(ctx):
    for i, c in enumerate(graph_configs(ctx.tier)):
        if i % ctx.nshards == ctx.shard:
            yield list(c)


def graph_body(ctx, case):
    kind, depth, width = case
    cap = 60000 if ctx.tier == "quick" else 400000
    sim, rcd, wcd, fifo = make(kind, depth, width)
    inputs = [(we, wd, re) for we in (0, 1) for wd in range(1 << width) for re in (0, 1)]
    stats = dict(states=0, transitions=0, nontrivial=0, capped=False, full=False, both_moved=False)
    fail = []

    async def tb(c):
        touch(c, fifo, rcd, wcd)
        s0 = (snapshot(sim), ())
        seen = {s0}
        frontier = collections.deque([s0])
        while frontier:
            snap, q = frontier.popleft()
            stats["states"] += 1
            for inp in inputs:
                for ev in ("w", "r", "b"):
                    restore(sim, snap)
                    c.set(fifo.w_data, inp[1]); c.set(fifo.w_en, inp[0]); c.set(fifo.r_en, inp[2])
                    out = {n: c.get(getattr(fifo, n)) for n in OUTS}
                    try:
                        check_outputs(fifo, q, out, dict(config=case, queue=list(q), inputs=list(inp), event=ev, outputs=out))
                    except Mismatch as mm:
                        fail.append(mm); return
                    apply_event(c, fifo, rcd, wcd, ev)
                    c.set(fifo.w_en, 0); c.set(fifo.r_en, 0); c.set(fifo.w_data, 0)
                    q2, popped, pushed = model_step(q, ev, inp, out)
                    stats["transitions"] += 1
                    if popped or pushed:
                        stats["nontrivial"] += 1
                    if popped and pushed:
                        stats["both_moved"] = True
                    if fifo.depth and len(q2) == fifo.depth:
                        stats["full"] = True
                    key = (snapshot(sim), q2)
                    if key not in seen:
                        if len(seen) >= cap:
                            stats["capped"] = True
                            continue
                        seen.add(key)
                        frontier.append(key)
    with warnings.catch_warnings():
        warnings.simplefilter("ignore")
        sim.add_testbench(tb)
        sim.run()
    if fail:
        raise fail[0]
    keys = [f"graph:{kind}", f"graph:depth{fifo.depth}"]
    if stats["full"]: keys.append("graph:full")
    if stats["both_moved"]: keys.append("graph:simultaneous-read-write")
    keys.append("graph:capped" if stats["capped"] else "graph:closed")
    ctx.extra["states"] = ctx.extra.get("states", 0) + stats["states"]
    ctx.extra["transitions"] = ctx.extra.get("transitions", 0) + stats["transitions"]
    ctx.extra.setdefault("graph_configs", []).append({"config": case, "actual_depth": fifo.depth, "states": stats["states"],
                                                      "transitions": stats["transitions"],
                                                      "exhaustive": not stats["capped"]})
    ctx.note_bulk(stats["transitions"], stats["nontrivial"],
                  {"config": case, "states": stats["states"], "transitions": stats["transitions"],
                   "exhaustive": not stats["capped"]}, *keys)


# ------------------------------------------------------------------------------------------ walks
@st.composite
def walk_cases(draw, nsteps):
    kind = PICK(draw, list(CLASSES))
    depth = draw(st.one_of(INT(1, 5), INT(1, 16)))
    width = draw(st.one_of(INT(0, 2), INT(0, 8)))
    steps = []
    mode, wmode = "mix", 1
    for _ in range(nsteps):
        r = draw(INT(0, 9))
        if r == 0:
            mode = PICK(draw, ["mix", "wburst", "rburst", "both"])
        if r == 1:
            wmode = draw(INT(0, 2))        # 0: never write, 1: random, 2: always write
        ev = {"mix": None, "wburst": "w", "rburst": "r", "both": "b"}[mode] or PICK(draw, ["w", "r", "b"])
        we = [0, draw(INT(0, 1)), 1][wmode]
        steps.append([ev, we, draw(INT(0, (1 << width) - 1)), draw(INT(0, 3)) != 0])
    # exact_depth=True is the other spelling of a depth the class supports as it stands (a power of two, plus one for
    # the buffered class); it is asked for on such depths only
    exact = draw(INT(0, 2)) == 0
    if exact:
        depth = (1 << draw(INT(0, 4))) + (1 if kind == "AsyncFIFOBuffered" else 0)
    return {"kind": kind, "depth": depth, "width": width, "steps": steps, "exact": exact,
            "domains": PICK(draw, [None, None, ["rd", "wr"], ["write", "read"], ["sync", "fast"]])}


def longest_run(steps, ev):
    best = cur = 0
    for s in steps:
        cur = cur + 1 if s[0] == ev else 0
        best = max(best, cur)
    return best


def walk_body(ctx, case):
    kind, depth, width = case["kind"], case["depth"], case["width"]
    sim, rcd, wcd, fifo = make(kind, depth, width, bool(case.get("exact")), case=case)
    if case.get("exact") and fifo.depth != depth:
        raise Mismatch("exact-depth-not-honoured", requested=depth, actual=fifo.depth)
    fail = []
    st_ = dict(full=False, emptied=False, moved=0)

    async def tb(c):
        q = ()
        for i, (ev, we, wd, re) in enumerate(case["steps"]):
            inp = (we, wd, int(re))
            c.set(fifo.w_data, wd); c.set(fifo.w_en, we); c.set(fifo.r_en, int(re))
            out = {n: c.get(getattr(fifo, n)) for n in OUTS}
            try:
                check_outputs(fifo, q, out, dict(step=i, queue=list(q), inputs=list(inp), event=ev, outputs=out))
            except Mismatch as mm:
                fail.append(mm); return
            apply_event(c, fifo, rcd, wcd, ev)
            q, popped, pushed = model_step(q, ev, inp, out)
            st_["moved"] += popped + pushed
            if len(q) == fifo.depth:
                st_["full"] = True
            if popped and not q:
                st_["emptied"] = True
        # bounded liveness: writing stops, both clocks keep running, r_en held high
        c.set(fifo.w_en, 0); c.set(fifo.r_en, 1)
        rounds = 0
        limit = len(q) + 10
        while q and rounds < limit:
            for ev in ("w", "r"):
                out = {n: c.get(getattr(fifo, n)) for n in OUTS}
                try:
                    check_outputs(fifo, q, out, dict(step="drain", queue=list(q), event=ev, outputs=out))
                except Mismatch as mm:
                    fail.append(mm); return
                apply_event(c, fifo, rcd, wcd, ev)
                q, popped, pushed = model_step(q, ev, (0, 0, 1), out)
            rounds += 1
        if q:
            fail.append(Mismatch("not-drained-within-bound", left=list(q), rounds=rounds, depth=fifo.depth))
    with warnings.catch_warnings():
        warnings.simplefilter("ignore")
        sim.add_testbench(tb)
        sim.run()
    if fail:
        raise fail[0]
    steps = case["steps"]
    keys = [f"walk:{kind}"]
    simult = any(s[0] == "b" for s in steps)
    bursts = longest_run(steps, "w") >= 3 and longest_run(steps, "r") >= 3
    if simult: keys.append("walk:simultaneous-edges")
    if case.get("domains"): keys.append(f"walk:{kind}-with-named-domains")
    if case.get("exact"): keys.append(f"walk:{kind}-exact-depth")
    if bursts: keys.append("walk:bursts")
    if st_["full"]: keys.append("walk:full")
    if st_["emptied"]: keys.append("walk:emptied")
    ctx.extra["traces_validated_against_impl"] = ctx.extra.get("traces_validated_against_impl", 0) + 1
    ctx.note(case, simult and bursts and st_["moved"] > 0, *keys, evals=len(steps))


# ------------------------------------------------------------------------------------------ pairs
# Two FIFOs as sibling submodules of one design over the same two clock domains, the second one crossing in the other
# direction (its read domain is the first one's write domain): what one instance keeps must not reach the other.
SWAP = {"w": "r", "r": "w", "b": "b"}


@st.composite
def pair_cases(draw, nsteps):
    a = draw(walk_cases(nsteps)); b = draw(walk_cases(nsteps))
    if draw(INT(0, 1)):
        b["kind"] = a["kind"]
        if draw(INT(0, 1)):
            b["depth"] = a["depth"]
    b["domains"] = a["domains"]
    for sa, sb in zip(a["steps"], b["steps"]):
        sb[0] = sa[0]
    return {"a": a, "b": b, "crossed": draw(INT(0, 2)) != 0, "order": draw(INT(0, 1))}


def pair_body(ctx, case):
    ca, cb = case["a"], case["b"]
    crossed = case["crossed"]
    with warnings.catch_warnings():
        warnings.simplefilter("ignore")
        m = Module()
        rn, wn = ca.get("domains") or ["read", "write"]
        rcd, wcd = ClockDomain(rn), ClockDomain(wn)
        m.domains += [rcd, wcd]
        fa = CLASSES[ca["kind"]](width=ca["width"], depth=ca["depth"], r_domain=rn, w_domain=wn)
        fb = CLASSES[cb["kind"]](width=cb["width"], depth=cb["depth"], r_domain=wn if crossed else rn,
                                 w_domain=rn if crossed else wn)
        if case["order"]:
            m.submodules.b = fb; m.submodules.a = fa
        else:
            m.submodules.a = fa; m.submodules.b = fb
        elaborated_before(case, m, every=3)
        sim = Simulator(m)
    fail = []
    moved = [0, 0]
    fifos = [(fa, ca, False), (fb, cb, crossed)]

    async def tb(c):
        qs = [(), ()]
        n = len(ca["steps"])
        for i in range(n + 2 * (max(fa.depth, fb.depth) + 10)):
            ev = ca["steps"][i][0] if i < n else "wr"[i % 2]
            outs = []
            for f, cs, x in fifos:
                _, we, wd, re = cs["steps"][i] if i < n else (ev, 0, 0, 1)
                c.set(f.w_data, wd); c.set(f.w_en, we); c.set(f.r_en, int(re))
            for k, (f, cs, x) in enumerate(fifos):
                _, we, wd, re = cs["steps"][i] if i < n else (ev, 0, 0, 1)
                out = {nm: c.get(getattr(f, nm)) for nm in OUTS}
                outs.append(((we, wd, int(re)), out))
                try:
                    check_outputs(f, qs[k], out, dict(step=i, which="ab"[k], queue=list(qs[k]), inputs=[we, wd, int(re)],
                                                      event=ev, outputs=out))
                except Mismatch as mm:
                    fail.append(mm); return
            apply_event(c, fa, rcd, wcd, ev)
            for k, (f, cs, x) in enumerate(fifos):
                q, popped, pushed = model_step(qs[k], SWAP[ev] if x else ev, outs[k][0], outs[k][1])
                qs[k] = q
                moved[k] += popped + pushed
        for k in range(2):
            if qs[k]:
                fail.append(Mismatch("not-drained-within-bound", which="ab"[k], left=list(qs[k]))); return
    with warnings.catch_warnings():
        warnings.simplefilter("ignore")
        sim.add_testbench(tb)
        sim.run()
    if fail:
        raise fail[0]
    keys = ["pair:any", "pair:crossed" if crossed else "pair:parallel"]
    if ca["kind"] == cb["kind"]: keys.append("pair:same-class")
    else: keys.append("pair:different-classes")
    if moved[0] and moved[1]: keys.append("pair:both-moved")
    ctx.note(case, bool(moved[0] and moved[1]), *keys, evals=len(ca["steps"]))


# ------------------------------------------------------------------------------------------ elaboration
def elab_cases(ctx):
    if ctx.shard == 0:
        for kind in CLASSES:
            for depth in range(0, 41):
                for exact in (False, True):
                    yield [kind, depth, exact]


def elab_body(ctx, case):
    kind, depth, exact = case
    try:
        with warnings.catch_warnings():
            warnings.simplefilter("ignore")
            fifo = CLASSES[kind](width=3, depth=depth, exact_depth=exact)
    except ValueError:
        ctx.note_bulk(1, 1, None, "elab:rejected-by-constructor")
        return
    if not exact and fifo.depth < depth:
        raise Mismatch("constructed-depth-smaller-than-requested", requested=depth, actual=fifo.depth)
    # constructible => must elaborate, simulate and convert
    sim, rcd, wcd, fifo = make(kind, depth, 3, exact)

    async def tb(c):
        c.set(fifo.w_en, 1); c.set(fifo.w_data, 5)
        apply_event(c, fifo, rcd, wcd, "b")
    with warnings.catch_warnings():
        warnings.simplefilter("ignore")
        sim.add_testbench(tb)
        sim.run()
        m = Module()
        m.domains += [ClockDomain("read"), ClockDomain("write")]
        m.submodules.fifo = f2 = CLASSES[kind](width=3, depth=depth, exact_depth=exact)
        text = rtlil.convert(m, ports=[f2.w_data, f2.w_en, f2.w_rdy, f2.r_data, f2.r_en, f2.r_rdy])
    if "module" not in text:
        raise Mismatch("empty-rtlil", config=case)
    ctx.note_bulk(1, 1, {"config": case, "actual_depth": fifo.depth}, "elab:elaborated",
                  f"elab:actual-depth-{min(fifo.depth, 3)}")


def parts(tier):
    q = tier == "quick"
    return [
        Part("elaborate", "enum", cases=elab_cases, body=elab_body, exhaustive=True),
        Part("graph", "enum", cases=graph_cases, body=graph_body, exhaustive=True),
        Part("walks", "hyp", strategy=walk_cases(150 if q else 600), body=walk_body, n=40 if q else 300),
        Part("pairs", "hyp", strategy=pair_cases(60 if q else 300), body=pair_body, n=12 if q else 150),
    ]


REQUIRED = ["graph:AsyncFIFO", "graph:AsyncFIFOBuffered", "graph:full", "graph:simultaneous-read-write",
            "walk:simultaneous-edges", "walk:bursts", "walk:full", "walk:emptied", "elab:elaborated",
            "elab:rejected-by-constructor", "elab:actual-depth-1", "elab:actual-depth-2",
            "walk:AsyncFIFO-with-named-domains", "walk:AsyncFIFOBuffered-with-named-domains",
            "walk:AsyncFIFO-exact-depth", "walk:AsyncFIFOBuffered-exact-depth", "pair:crossed", "pair:parallel", "pair:same-class", "pair:different-classes", "pair:both-moved"]


def coverage_extra(tier, counters, extra):
    cfgs = extra.get("graph_configs", [])
    return {"exhaustive": bool(cfgs) and all(c["exhaustive"] for c in cfgs),
            "states": int(extra.get("states", 0)), "transitions": int(extra.get("transitions", 0)),
            "traces_validated_against_impl": int(extra.get("traces_validated_against_impl", 0)),
            "explanation": "states/transitions are those of the real implementation executed in the simulator; "
                           "graph_configs lists per configuration whether the exploration reached closure (exhaustive) "
                           "or stopped at the state cap."}
