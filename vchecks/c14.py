"""C14 — Interface signatures, flipping and connect() preserve direction and data flow."""
import itertools, warnings, copy
from hypothesis import strategies as st

from amaranth.hdl import Module, Signal, Const, Shape, Value, signed, unsigned
from amaranth.lib import wiring, data, enum as aenum
from amaranth.lib.wiring import In, Out, Signature, Component, ComponentMetadata, connect, flipped
from amaranth.sim import Simulator

from vlib.runner import Part, Mismatch, HarnessError
from vlib.gen_expr import INT, BOOL, PICK

PID = "C14"
LEVEL = "exploration"
RULE = ("Hypothesis generates signature trees (depth<=3, 1..4 members per level, In/Out at every level, nested "
        "signatures, 0..2 array dimensions of size 0..3 on ports AND on sub-signatures, port shapes unsigned/signed/"
        "shaped enum/struct layout with in-range initial values). algebra: flip().flip()==sig, flip reverses every "
        "leaf's effective direction (model: leaf flow XOR parity of enclosing In members XOR outer flips), "
        "created objects comply (plain, flip().create(), flipped(create())), flatten visits exactly the model's "
        "leaf paths once with the model's directions and the object's own attributes, Component metadata JSON == model "
        "(name, dir, width, signed, init) and validates. connect: 2..4 interface objects over one structure, per "
        "leaf an owner (exactly one output) or none, built either as (sig, flip) pairs / flipped() proxies or as "
        "independent signatures with per-object flows; some leaves replaced by constants; after connect(m, ...) in "
        "a simulation every output leaf is ctx.set to generated values (a driven output would raise) and every input "
        "leaf must read the same bit pattern; unowned leaves keep their init and stay writable; argument order is "
        "permuted and must give the same result. corrupt: one single-point corruption of a connectable tuple "
        "(member removed, width changed, init changed, second output on a leaf, constant mismatched, constant input "
        "facing a signal output) must raise ConnectionError. Non-trivial: depth>=2 with an In-flow nested signature, "
        "or array dimensions, or a constant member. Distinct by canonical hash of the case.")
ASSUMPTIONS = [
    "Initial values are representable in the member shape (amaranth warns on truncation itself).",
    "When signedness differs between connected members the initial value is non-negative and fits both.",
    "Dimension mismatches between objects are not generated (the property does not list them).",
    "Constant members keep one signedness across the connected objects ('the same constant value' is compared as a Python integer).",
]
QUICK_SHARDS = 4
THOROUGH_SHARDS = 16

NAMES = ["a", "b", "c", "d", "e", "x1", "Data_2", "valid", "q"]


# ------------------------------------------------------------------------------------------ descriptors
def draw_shape(draw):
    k = draw(INT(0, 9))
    if k <= 4:
        w = draw(st.one_of(INT(0, 2), INT(0, 8)))
        return ["u", w]
    if k <= 6:
        return ["s", draw(INT(1, 8))]
    if k == 7 and draw(BOOL):
        w = draw(INT(1, 3))
        vals = sorted(set(draw(INT(0, (1 << w) - 1)) for _ in range(draw(INT(1, 4)))))
        return ["enum", w, vals]
    if k == 7:
        # an aggregate CLASS with per-field defaults: a member without init= takes its initial value from them
        fields = [[f"g{i}", draw(INT(1, 3)), draw(INT(0, 7))] for i in range(draw(INT(1, 3)))]
        for f in fields:
            f[2] &= (1 << f[1]) - 1
        return ["structcls", fields]
    fields = []
    for i in range(draw(INT(1, 3))):
        fields.append([f"f{i}", draw(INT(0, 4)) if draw(BOOL) else draw(INT(1, 4)), False])
        if fields[-1][1] > 0 and draw(INT(0, 2)) == 0:
            fields[-1][2] = True
    return ["struct", fields]


def shape_width(sh):
    if sh[0] in ("u", "s"):
        return sh[1]
    if sh[0] == "enum":
        return sh[1]
    return sum(f[1] for f in sh[1])


def structcls_default(sh):
    raw, off = 0, 0
    for name, w, dv in sh[1]:
        raw |= dv << off
        off += w
    return raw


def shape_signed(sh):
    return sh[0] == "s"


def draw_init(draw, sh):
    """Raw bit pattern of the initial value."""
    if sh[0] == "enum":
        return PICK(draw, sh[2]) if draw(BOOL) else sh[2][0]
    if sh[0] == "structcls":
        return structcls_default(sh)        # no init= is given for these members
    w = shape_width(sh)
    if w == 0 or draw(INT(0, 2)) == 0:
        return 0
    return draw(INT(0, (1 << w) - 1))


def draw_dims(draw):
    k = draw(INT(0, 9))
    if k <= 5:
        return []
    if k <= 8:
        return [draw(INT(0, 3))]
    return [draw(INT(1, 2)), draw(INT(0, 2))]


def draw_sig(draw, depth, sigdims=True):
    n = draw(INT(1, 4)) if depth > 0 else draw(INT(1, 3))
    names = list(NAMES)
    members = []
    for _ in range(n):
        name = names.pop(draw(INT(0, len(names) - 1)))
        flow = "in" if draw(BOOL) else "out"
        if depth > 0 and draw(INT(0, 2)) == 0:
            dims = draw_dims(draw) if sigdims and draw(INT(0, 3)) == 0 else []
            members.append({"name": name, "flow": flow, "dims": dims, "sig": draw_sig(draw, depth - 1, sigdims)})
            if draw(INT(0, 3)) == 0:
                members[-1]["pre"] = True      # the member's description is an already flipped signature
        else:
            sh = draw_shape(draw)
            members.append({"name": name, "flow": flow, "dims": draw_dims(draw),
                            "port": {"shape": sh, "init": draw_init(draw, sh)}})
    return {"m": members}


# ------------------------------------------------------------------------------------------ model
def mflip(m):
    """Does entering this signature member reverse the effective direction of what is inside?"""
    return (m["flow"] == "in") ^ bool(m.get("pre"))


def model_leaves(sig, flip=False, prefix=()):
    """[(path, dir, port descriptor)] with array dimensions expanded, in declaration order."""
    out = []
    for m in sig["m"]:
        for idx in itertools.product(*[range(d) for d in m["dims"]]):
            path = prefix + (m["name"],) + idx
            if "port" in m:
                out.append((path, "in" if (m["flow"] == "in") ^ flip else "out", m["port"]))
            else:
                out += model_leaves(m["sig"], flip ^ mflip(m), path)
    return out


def sig_depth(sig):
    return 1 + max([sig_depth(m["sig"]) for m in sig["m"] if "sig" in m] or [0])


def has_in_nested(sig):
    return any("sig" in m and (mflip(m) or has_in_nested(m["sig"])) for m in sig["m"])


def has_preflip(sig):
    return any("sig" in m and (m.get("pre") or has_preflip(m["sig"])) for m in sig["m"])


def has_dims(sig):
    return any(m["dims"] or ("sig" in m and has_dims(m["sig"])) for m in sig["m"])


def has_sig_dims(sig):
    return any("sig" in m and (m["dims"] or has_sig_dims(m["sig"])) for m in sig["m"])


# ------------------------------------------------------------------------------------------ builders
class Builder:
    def __init__(self):
        self.cache = {}

    def shape(self, sh):
        key = repr(sh)
        if key in self.cache:
            return self.cache[key]
        if sh[0] == "u":
            r = unsigned(sh[1])
        elif sh[0] == "s":
            r = signed(sh[1])
        elif sh[0] == "enum":
            ns = aenum.EnumType.__prepare__(f"E{len(self.cache)}", (aenum.Enum,))
            for v in sh[2]:
                ns[f"M{v}"] = v
            r = aenum.EnumType(f"E{len(self.cache)}", (aenum.Enum,), ns, shape=unsigned(sh[1]))
        elif sh[0] == "structcls":
            ns = {"__annotations__": {f[0]: unsigned(f[1]) for f in sh[1]}}
            for f in sh[1]:
                ns[f[0]] = f[2]
            r = type(f"SC{len(self.cache)}", (data.Struct,), ns)
        else:
            r = data.StructLayout({f[0]: (signed(f[1]) if f[2] else unsigned(f[1])) for f in sh[1]})
        self.cache[key] = r
        return r

    def init(self, sh, raw):
        if sh[0] == "u":
            return raw
        if sh[0] == "s":
            return raw - (1 << sh[1]) if raw >> (sh[1] - 1) else raw
        if sh[0] == "enum":
            return self.shape(sh)(raw)
        if sh[0] == "structcls":
            return None
        out, off = {}, 0
        for name, w, s in sh[1]:
            v = (raw >> off) & ((1 << w) - 1)
            if s and w and v >> (w - 1):
                v -= 1 << w
            out[name] = v
            off += w
        return out

    def member(self, m):
        F = In if m["flow"] == "in" else Out
        if "port" in m:
            sh = m["port"]["shape"]
            if sh[0] == "structcls":
                mem = F(self.shape(sh))                 # initial value comes from the class defaults
            else:
                mem = F(self.shape(sh), init=self.init(sh, m["port"]["init"]))
        else:
            mem = F(self.sig(m["sig"]).flip() if m.get("pre") else self.sig(m["sig"]))
        if m["dims"]:
            mem = mem.array(*m["dims"])
        return mem

    def sig(self, sig):
        return Signature({m["name"]: self.member(m) for m in sig["m"]})


def traverse(obj, path):
    for p in path:
        obj = obj[p] if isinstance(p, int) else getattr(obj, p)
    return obj


def init_value(port):
    """The initial value as Const.value would report it."""
    sh, raw = port["shape"], port["init"]
    if sh[0] == "s" and raw >> (sh[1] - 1):
        return raw - (1 << sh[1])
    return raw


# ------------------------------------------------------------------------------------------ algebra
@st.composite
def algebra_cases(draw, depth):
    return {"sig": draw_sig(draw, draw(INT(0, depth)))}


def check_flatten(sig_obj, iface, expected, what):
    got = list(sig_obj.flatten(iface))
    gp = [tuple(p) for p, _, _ in got]
    ep = [p for p, _, _ in expected]
    if sorted(gp, key=repr) != sorted(ep, key=repr) or len(set(gp)) != len(gp):
        raise Mismatch("flatten-paths", what=what, expected=[list(p) for p in ep], actual=[list(p) for p in gp])
    exp = {p: (d, port) for p, d, port in expected}
    for p, mem, val in got:
        d, port = exp[tuple(p)]
        gd = "in" if mem.flow == In else "out"
        if gd != d:
            raise Mismatch("flatten-direction", what=what, path=list(p), expected=d, actual=gd)
        if val is not traverse(iface, p):
            raise Mismatch("flatten-value", what=what, path=list(p))
        sh = Shape.cast(mem.shape)
        if sh.width != shape_width(port["shape"]) or sh.signed != shape_signed(port["shape"]):
            raise Mismatch("flatten-shape", what=what, path=list(p), actual=repr(sh))


def model_json(sig, flip=False, prefix=()):
    out = {}
    for m in sig["m"]:
        def one(path):
            if "port" in m:
                p = m["port"]
                return {"type": "port", "name": "__".join(str(x) for x in path),
                        "dir": "in" if (m["flow"] == "in") ^ flip else "out",
                        "width": shape_width(p["shape"]), "signed": shape_signed(p["shape"]),
                        "init": str(init_value(p))}
            return {"type": "interface", "members": model_json(m["sig"], flip ^ mflip(m), path),
                    "annotations": {}}
        def dims(ds, path):
            if not ds:
                return one(path)
            return [dims(ds[1:], path + (i,)) for i in range(ds[0])]
        out[m["name"]] = dims(m["dims"], prefix + (m["name"],))
    return out


def algebra_body(ctx, case):
    sd = case["sig"]
    with warnings.catch_warnings():
        warnings.simplefilter("ignore")
        b = Builder()
        sig = b.sig(sd)
        fl = sig.flip()
        if not (fl.flip() == sig):
            raise Mismatch("flip-flip-not-original")
        if fl.flip().flip() != fl:
            raise Mismatch("flip-flip-of-flipped-not-original")
        for m in sd["m"]:
            f0 = sig.members[m["name"]].flow
            f1 = fl.members[m["name"]].flow
            if (f0 == In) != (m["flow"] == "in") or f1 == f0:
                raise Mismatch("member-flow", member=m["name"], plain=str(f0), flipped=str(f1))
        leaves = model_leaves(sd)
        leaves_f = model_leaves(sd, flip=True)
        obj = sig.create(path=("o",))
        if not sig.is_compliant(obj):
            reasons = []
            sig.is_compliant(obj, reasons=reasons)
            raise Mismatch("created-object-not-compliant", reasons=reasons)
        check_flatten(sig, obj, leaves, "sig.flatten(sig.create())")
        # flipped object built both ways
        fobj = flipped(obj)
        if flipped(fobj) is not obj:
            raise Mismatch("flipped-flipped-not-identity")
        if not fl.is_compliant(fobj):
            reasons = []
            fl.is_compliant(fobj, reasons=reasons)
            raise Mismatch("flipped-object-not-compliant-with-flipped-signature", reasons=reasons)
        check_flatten(fl, fobj, leaves_f, "sig.flip().flatten(flipped(obj))")
        fobj2 = fl.create(path=("p",))
        if not fl.is_compliant(fobj2):
            reasons = []
            fl.is_compliant(fobj2, reasons=reasons)
            raise Mismatch("flip-created-object-not-compliant", reasons=reasons)
        check_flatten(fl, fobj2, leaves_f, "sig.flip().flatten(sig.flip().create())")
        # a structurally flipped signature (every top-level member flow inverted) equals flip()
        manual = {"m": [dict(m, flow="out" if m["flow"] == "in" else "in") for m in sd["m"]]}
        msig = b.sig(manual)
        if not (msig == fl and fl == msig):
            raise Mismatch("flip-not-equal-to-member-wise-flip")
        if msig == sig and any(True for _ in leaves) and sd["m"]:
            raise Mismatch("flipped-signature-equals-original")
        # component metadata
        comp = Component(sig)
        js = comp.metadata.as_json()
        exp = {"interface": {"members": model_json(sd), "annotations": {}}}
        if js != exp:
            raise Mismatch("metadata", expected=exp, actual=js)
        ComponentMetadata.validate(js)
        fjs = Component(fl).metadata.as_json()
        fexp = {"interface": {"members": model_json(sd, flip=True), "annotations": {}}}
        if fjs != fexp:
            raise Mismatch("metadata-of-flipped", expected=fexp, actual=fjs)
    keys = ["alg:depth%d" % sig_depth(sd)]
    if has_in_nested(sd): keys.append("alg:in-nested")
    if has_preflip(sd): keys.append("alg:member-is-flipped-signature")
    if has_dims(sd): keys.append("alg:dims")
    if has_sig_dims(sd): keys.append("alg:sig-dims")
    if any(p["shape"][0] in ("enum", "struct") for _, _, p in leaves): keys.append("alg:aggregate-shape")
    if any(p["shape"][0] == "structcls" for _, _, p in leaves): keys.append("alg:struct-class-with-defaults")
    if any(d == 0 for m in sd["m"] for d in m["dims"]): keys.append("alg:zero-dim")
    ctx.note(case, (sig_depth(sd) >= 2 and has_in_nested(sd)) or has_dims(sd), *keys, evals=1)


# ------------------------------------------------------------------------------------------ connect
def leaf_members(sig, prefix=()):
    """Leaf *members* (dimensions not expanded): [(member path of names, member descriptor)]."""
    out = []
    for m in sig["m"]:
        if "port" in m:
            out.append((prefix + (m["name"],), m))
        else:
            out += leaf_members(m["sig"], prefix + (m["name"],))
    return out


def with_flows(sig, want_out, flipbits, prefix=(), parity=False):
    """Copy of the structure with flows such that leaf member `path` is effectively Out iff want_out[path]."""
    res = []
    for m in sig["m"]:
        path = prefix + (m["name"],)
        if "port" in m:
            eff_out = want_out[path]
            flow_is_in = (not eff_out) ^ parity
            res.append(dict(m, flow="in" if flow_is_in else "out"))
        else:
            fin = flipbits.get(path, False)
            res.append(dict(m, flow="in" if fin else "out",
                            sig=with_flows(m["sig"], want_out, flipbits, path, parity ^ fin ^ bool(m.get("pre")))))
    return {"m": res}


def sig_member_paths(sig, prefix=()):
    out = []
    for m in sig["m"]:
        if "sig" in m:
            out.append(prefix + (m["name"],))
            out += sig_member_paths(m["sig"], prefix + (m["name"],))
    return out


@st.composite
def connect_cases(draw, depth, corrupt=False):
    sd = draw_sig(draw, draw(INT(0, depth)), sigdims=draw(INT(0, 5)) == 0)
    lm = leaf_members(sd)
    style = draw(INT(0, 3))      # 0: (sig, flip) pair; 1: (create, flipped(create)); 2,3: independent signatures
    if style <= 1:
        k = 2
        owners = {"/".join(p): None for p, _ in lm}     # determined by the signature itself
        flipbits = None
    else:
        k = draw(INT(2, 4))
        owners = {"/".join(p): (draw(INT(0, k - 1)) if draw(INT(0, 5)) else None) for p, _ in lm}
        flipbits = [{"/".join(p): draw(BOOL) for p in sig_member_paths(sd)} for _ in range(k)]
    # constants: leaf member path -> value, which objects hold a constant
    consts = {}
    for p, m in lm:
        if draw(INT(0, 6)) == 0:
            w = shape_width(m["port"]["shape"])
            v = draw(INT(0, (1 << w) - 1)) if w else 0
            consts["/".join(p)] = {"value": v, "in_const": [draw(BOOL) for _ in range(k)]}
    signflip = {}
    for p, m in lm:
        sh = m["port"]["shape"]
        if sh[0] in ("u", "s") and sh[1] >= 1 and m["port"]["init"] < (1 << (sh[1] - 1)) and "/".join(p) not in consts \
                and draw(INT(0, 4)) == 0:
            signflip["/".join(p)] = draw(INT(0, k - 1))
    nvals = draw(INT(1, 3))
    seeds = [draw(INT(0, 2 ** 32 - 1)) for _ in range(nvals)]
    perm = draw(st.permutations(list(range(k))))
    case = {"sig": sd, "style": style, "k": k, "owners": owners, "flipbits": flipbits, "consts": consts,
            "signflip": signflip, "seeds": seeds, "perm": list(perm)}
    if corrupt:
        case["corruption"] = [draw(INT(0, len(CORRUPTIONS) - 1)), draw(INT(0, 10 ** 6)), draw(INT(0, 10 ** 6))]
    return case


def object_sigs(case):
    """Per-object signature descriptors and the model's owner per leaf member."""
    sd, k = case["sig"], case["k"]
    lm = leaf_members(sd)
    if case["style"] <= 1:
        eff = {}
        def walk(sig, flip, prefix):
            for m in sig["m"]:
                path = prefix + (m["name"],)
                if "port" in m:
                    eff[path] = ((m["flow"] == "in") ^ flip)
                else:
                    walk(m["sig"], flip ^ mflip(m), path)
        walk(sd, False, ())
        owners = {p: (1 if eff[p] else 0) for p, _ in lm}     # object 0 = sig, object 1 = flipped
        return None, owners
    owners = {p: case["owners"]["/".join(p)] for p, _ in lm}
    sigs = []
    for j in range(k):
        want_out = {p: owners[p] == j for p, _ in lm}
        fb = {tuple(key.split("/")): v for key, v in case["flipbits"][j].items()}
        sigs.append(with_flows(sd, want_out, fb))
    return sigs, owners


def apply_signflip(sigdesc, case, j):
    """Object j uses the other signedness for the chosen leaves (signedness may differ)."""
    sigdesc = copy.deepcopy(sigdesc)
    def walk(sig, prefix):
        for m in sig["m"]:
            path = prefix + (m["name"],)
            if "port" in m:
                if case["signflip"].get("/".join(path)) == j:
                    sh = m["port"]["shape"]
                    m["port"]["shape"] = ["s" if sh[0] == "u" else "u", sh[1]]
            else:
                walk(m["sig"], path)
    walk(sigdesc, ())
    return sigdesc


def build_objects(case, b):
    sd, k = case["sig"], case["k"]
    sigs, owners = object_sigs(case)
    objs = []
    if case["style"] == 0:
        s = b.sig(sd)
        objs = [s.create(path=("o0",)), s.flip().create(path=("o1",))]
    elif case["style"] == 1:
        s = b.sig(sd)
        objs = [s.create(path=("o0",)), flipped(s.create(path=("o1",)))]
    else:
        for j in range(k):
            objs.append(b.sig(apply_signflip(sigs[j], case, j)).create(path=(f"o{j}",)))
    return objs, owners


def set_leaf(obj, path, value):
    parent = traverse(obj, path[:-1])
    if isinstance(path[-1], int):
        parent[path[-1]] = value
    else:
        setattr(parent, path[-1], value)


def expand(sd):
    """[(member path, full path with indices, port)] for every leaf."""
    out = []
    def walk(sig, mprefix, prefix):
        for m in sig["m"]:
            for idx in itertools.product(*[range(d) for d in m["dims"]]):
                if "port" in m:
                    out.append((mprefix + (m["name"],), prefix + (m["name"],) + idx, m["port"]))
                else:
                    walk(m["sig"], mprefix + (m["name"],), prefix + (m["name"],) + idx)
    walk(sd, (), ())
    return out


def install_constants(case, objs, owners, b):
    """Replace some leaves by constants; returns {full path: const value} for leaves whose output is a constant."""
    const_out = {}
    for mpath, fpath, port in expand(case["sig"]):
        c = case["consts"].get("/".join(mpath))
        if c is None or owners[mpath] is None:
            continue
        shp = b.shape(port["shape"])
        raw = c["value"]
        const_out[fpath] = raw
        for j, obj in enumerate(objs):
            flip = case["signflip"].get("/".join(mpath)) == j and case["style"] >= 2
            sh = Shape.cast(shp)
            if flip:
                sh = Shape(sh.width, not sh.signed)
            if j == owners[mpath] or c["in_const"][j]:
                set_leaf(obj, fpath, Const(raw, sh))
    return const_out


def run_connect(case, objs, owners, const_out, order):
    """connect() in the given argument order, then simulate; returns list of observations."""
    sd = case["sig"]
    m = Module()
    connect(m, *[objs[j] for j in order])
    leaves = expand(sd)
    import random
    obs = []
    fail = []

    async def tb(c):
        for si, seed in enumerate(case["seeds"]):
            rng = random.Random(seed)
            for mpath, fpath, port in leaves:
                w = shape_width(port["shape"])
                mask = (1 << w) - 1
                own = owners[mpath]
                vals = [Value.cast(traverse(o, fpath)) for o in objs]
                if own is None:
                    # nothing is connected: every object's leaf is free, keeps init, stays writable
                    for j, v in enumerate(vals):
                        if isinstance(v, Const):
                            continue
                        if si == 0 and (c.get(v) & mask) != port["init"]:
                            fail.append(Mismatch("unconnected-leaf-not-at-init", path=list(fpath), obj=j)); return
                        x = rng.getrandbits(w) if w else 0
                        c.set(v, x)
                        if (c.get(v) & mask) != x:
                            fail.append(Mismatch("unconnected-leaf-not-writable", path=list(fpath), obj=j)); return
                    continue
                src = vals[own]
                if fpath in const_out:
                    x = const_out[fpath]
                else:
                    if isinstance(src, Const):
                        raise HarnessError("unexpected constant output")
                    x = rng.getrandbits(w) if w else 0
                    try:
                        c.set(src, x)
                    except Exception as e:
                        fail.append(Mismatch("output-leaf-is-driven", path=list(fpath), obj=own, error=str(e)[:200])); return
                    if (c.get(src) & mask) != x:
                        fail.append(Mismatch("output-leaf-does-not-hold-written-value", path=list(fpath), obj=own)); return
                for j, v in enumerate(vals):
                    if j == own:
                        continue
                    got = c.get(v) & mask
                    obs.append((fpath, j, got))
                    if got != x:
                        fail.append(Mismatch("input-does-not-follow-output", path=list(fpath), output_obj=own,
                                             input_obj=j, expected=x, actual=got, order=list(order))); return
    with warnings.catch_warnings():
        warnings.simplefilter("ignore")
        sim = Simulator(m)
        sim.add_testbench(tb)
        sim.run()
    if fail:
        raise fail[0]
    return obs


def connect_body(ctx, case):
    with warnings.catch_warnings():
        warnings.simplefilter("ignore")
        b = Builder()
        objs, owners = build_objects(case, b)
        const_out = install_constants(case, objs, owners, b)
        leaves = expand(case["sig"])
        any_in = any(True for mp, fp, p in leaves) and case["k"] >= 2
        any_out = any(owners[mp] is not None for mp, fp, p in leaves)
        try:
            obs1 = run_connect(case, objs, owners, const_out, list(range(case["k"])))
        except wiring.ConnectionError as e:
            if not any_out and "Only input to input" in str(e):     # no existing leaf has an output (zero-dimension members have no leaves)
                # documented diagnostic: several interfaces, inputs only
                ctx.note(case, False, "conn:inputs-only-diagnostic")
                return
            raise Mismatch("connect-refused-connectable-tuple", error=str(e)[:300])
        # fresh objects, permuted argument order
        b2 = Builder()
        objs2, owners2 = build_objects(case, b2)
        const_out2 = install_constants(case, objs2, owners2, b2)
        obs2 = run_connect(case, objs2, owners2, const_out2, case["perm"])
        if obs1 != obs2:
            raise Mismatch("argument-order-changes-behaviour", order=case["perm"])
    sd = case["sig"]
    keys = ["conn:style%d" % case["style"], "conn:k%d" % case["k"]]
    if has_in_nested(sd): keys.append("conn:in-nested")
    if has_preflip(sd): keys.append("conn:member-is-flipped-signature")
    if has_dims(sd): keys.append("conn:dims")
    if has_sig_dims(sd) and leaves: keys.append("conn:sig-dims")
    if const_out: keys.append("conn:constant")
    if case["signflip"] and case["style"] >= 2: keys.append("conn:signedness-differs")
    if any(owners[mp] is None for mp, _, _ in leaves): keys.append("conn:unowned-leaf")
    if case["perm"] != sorted(case["perm"]): keys.append("conn:permuted")
    nontrivial = bool(obs1) and ((sig_depth(sd) >= 2 and has_in_nested(sd)) or has_dims(sd) or bool(const_out))
    ctx.note(case, nontrivial, *keys, evals=len(obs1) + len(obs2))


# ------------------------------------------------------------------------------------------ corruptions
CORRUPTIONS = ["remove-member", "change-width", "change-init", "second-output", "const-mismatch", "const-in-vs-signal-out",
               "object-wrong-width", "object-wrong-init"]


def corrupt_body(ctx, case):
    kind = CORRUPTIONS[case["corruption"][0]]
    r1, r2 = case["corruption"][1], case["corruption"][2]
    case = dict(case)
    if case["style"] <= 1:
        # express the pair as independent signatures so that one side can be corrupted
        sigs, owners = object_sigs(case)
        lm = leaf_members(case["sig"])
        case["style"] = 2
        case["owners"] = {"/".join(p): owners[p] for p, _ in lm}
        case["flipbits"] = [{"/".join(p): False for p in sig_member_paths(case["sig"])} for _ in range(2)]
        case["signflip"] = {}
    case["consts"] = {} if kind not in ("const-mismatch", "const-in-vs-signal-out") else case["consts"]
    with warnings.catch_warnings():
        warnings.simplefilter("ignore")
        b = Builder()
        sigs, owners = object_sigs(case)
        lm = leaf_members(case["sig"])
        owned = [(p, m) for p, m in lm if owners[p] is not None]
        leaves = expand(case["sig"])
        k = case["k"]
        victim = r1 % k
        descs = [apply_signflip(sigs[j], case, j) for j in range(k)]

        def find(sig, path):
            for m in sig["m"]:
                if m["name"] == path[0]:
                    return (sig, m) if len(path) == 1 else find(m["sig"], path[1:])
            raise HarnessError("path not found")

        if kind == "remove-member":
            p, _ = lm[r2 % len(lm)]
            if not [fp for mp, fp, _ in leaves if mp == p]:
                ctx.tally("corrupt:skipped-empty"); return
            parent, mem = find(descs[victim], p)
            parent["m"].remove(mem)
            if not parent["m"] and len(p) > 1:
                pass
        elif kind == "change-width":
            cands = [(p, m) for p, m in lm if m["port"]["shape"][0] in ("u", "s") and [1 for mp, fp, _ in leaves if mp == p]]
            if not cands:
                ctx.tally("corrupt:skipped-no-candidate"); return
            p, _ = cands[r2 % len(cands)]
            _, mem = find(descs[victim], p)
            sh = mem["port"]["shape"]
            mem["port"] = {"shape": [sh[0], sh[1] + 1], "init": mem["port"]["init"]}
        elif kind == "change-init":
            cands = [(p, m) for p, m in lm if m["port"]["shape"][0] in ("u", "s") and m["port"]["shape"][1] >= 1
                     and [1 for mp, fp, _ in leaves if mp == p] and "/".join(p) not in case["signflip"]]
            if not cands:
                ctx.tally("corrupt:skipped-no-candidate"); return
            p, _ = cands[r2 % len(cands)]
            _, mem = find(descs[victim], p)
            w = mem["port"]["shape"][1]
            mem["port"] = {"shape": mem["port"]["shape"], "init": (mem["port"]["init"] + 1 + r2 % ((1 << w) - 1)) % (1 << w)
                           if w > 1 else mem["port"]["init"] ^ 1}
        elif kind == "second-output":
            cands = [(p, m) for p, m in owned if [1 for mp, fp, _ in leaves if mp == p]]
            if not cands:
                ctx.tally("corrupt:skipped-no-candidate"); return
            p, _ = cands[r2 % len(cands)]
            others = [j for j in range(k) if j != owners[p]]
            victim = others[r1 % len(others)]
            _, mem = find(descs[victim], p)
            mem["flow"] = "in" if mem["flow"] == "out" else "out"
        objs = [b.sig(descs[j]).create(path=(f"o{j}",)) for j in range(k)]
        if kind in ("const-mismatch", "const-in-vs-signal-out"):
            cands = [(mp, fp, port) for mp, fp, port in leaves if owners[mp] is not None and shape_width(port["shape"]) >= 1]
            if not cands:
                ctx.tally("corrupt:skipped-no-candidate"); return
            case["consts"] = {}
            mp, fp, port = cands[r2 % len(cands)]
            sh = Shape.cast(b.shape(port["shape"]))
            w = sh.width
            v = r1 % (1 << w)
            others = [j for j in range(k) if j != owners[mp]]
            vic = others[r2 % len(others)]
            if kind == "const-mismatch":
                set_leaf(objs[owners[mp]], fp, Const(v, sh))
                set_leaf(objs[vic], fp, Const((v + 1) % (1 << w), sh))
            else:
                set_leaf(objs[vic], fp, Const(v, sh))
        extra = []
        if kind in ("object-wrong-width", "object-wrong-init"):
            # the object itself (not its signature) is corrupted at one leaf, preferably at an array index >= 1
            cands = [(mp, fp, port) for mp, fp, port in leaves if port["shape"][0] in ("u", "s")
                     and (kind == "object-wrong-width" or port["shape"][1] >= 1)]
            hi = [c for c in cands if any(isinstance(x, int) and x >= 1 for x in c[1])]
            if hi and r1 % 4:
                cands = hi
                extra.append("corrupt:at-index>=1")
            if not cands:
                ctx.tally("corrupt:skipped-no-candidate"); return
            mp, fp, port = cands[r2 % len(cands)]
            vic = r1 % k
            old = Value.cast(traverse(objs[vic], fp))
            if isinstance(old, Const):
                ctx.tally("corrupt:skipped-no-candidate"); return
            sh = old.shape()
            if kind == "object-wrong-width":
                new = Signal(Shape(sh.width + 1, sh.signed), init=old.init)
            else:
                new = Signal(sh, init=old.init + 1 if Shape.cast(sh).width and old.init + 1 < (1 << (sh.width - sh.signed)) else old.init - 1)
            set_leaf(objs[vic], fp, new)
            for j in range(k):
                if objs[j].signature.is_compliant(objs[j]) != (j != vic):
                    raise Mismatch("is_compliant-wrong-on-corrupted-object", corruption=kind, obj=j, victim=vic, path=list(fp))
        m = Module()
        try:
            connect(m, *objs)
        except wiring.ConnectionError:
            ctx.note(case, True, "corrupt:" + kind, *extra, evals=1)
            return
        raise Mismatch("corrupted-tuple-accepted", corruption=kind)


def parts(tier):
    q = tier == "quick"
    d = 2 if q else 3
    return [
        Part("algebra", "hyp", strategy=algebra_cases(d), body=algebra_body, n=250 if q else 3000),
        Part("connect", "hyp", strategy=connect_cases(d), body=connect_body, n=120 if q else 1500),
        Part("corrupt", "hyp", strategy=connect_cases(d, corrupt=True), body=corrupt_body, n=150 if q else 1500),
    ]


REQUIRED = ["alg:depth2", "alg:in-nested", "alg:dims", "alg:aggregate-shape", "alg:zero-dim",
            "conn:style0", "conn:style1", "conn:style2", "conn:k3", "conn:in-nested", "conn:dims", "conn:constant",
            "conn:signedness-differs", "conn:unowned-leaf", "conn:permuted", "alg:member-is-flipped-signature", "alg:struct-class-with-defaults",
            "conn:member-is-flipped-signature", "corrupt:at-index>=1"] + ["corrupt:" + c for c in CORRUPTIONS]
