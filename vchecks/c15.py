"""C15 — Data layouts and shaped enumerations obey the shape-castable laws."""
import enum as py_enum, warnings
from hypothesis import strategies as st

from amaranth import hdl
from amaranth.hdl import Module, Signal, Shape, Value, ClockDomain, signed, unsigned
from amaranth.lib import data, enum as aenum
from amaranth.sim import Simulator

from vlib.reuse import elaborated_before
from vlib.runner import Part, Mismatch, HarnessError
from vlib.gen_expr import INT, BOOL, PICK

PID = "C15"
LEVEL = "exploration"
RULE = ("Hypothesis generates layout trees (struct / union / array / flexible with gaps and overlaps, depth<=3, <=24 bits, "
        "leaves unsigned 0..5, signed 1..5, shaped Enum) plus raw bit patterns (all of them when the layout has <=6 "
        "bits, 12..40 generated ones otherwise). Oracle: offsets/widths from the documented placement rules computed on "
        "the descriptor; field values as bit slices of the raw integer reinterpreted in the field's shape. Checked: "
        "layout[key].offset/width/size; const(init) for initialisers given as ints, enum members, nested dicts/lists, "
        "data.Const and hdl.Const of other widths (assignment semantics) in generated key order; const(x)[k] read-back "
        "at every path; from_bits(raw).as_bits()==raw and Const.cast(const(from_bits(raw)))==raw; in simulation "
        "ctx.get(view[path]) == slice of raw == from_bits(raw)[path] at every path incl. array slices and dynamic "
        "indices; assignment through view[path] by ctx.set, by a combinational and by a clocked statement changes "
        "exactly that field's bits, and the same reads and combinational writes are repeated on the emitted RTLIL "
        "executed by the independent evaluator (synthesis leg); Struct/Union classes with field defaults and init overrides (defaults must not be changed by an earlier use); nested Struct classes whose inner defaults are selected by an empty / None / partial / absent outer initialiser. enums: shaped "
        "Enum/IntEnum/Flag/IntFlag classes with generated members: const/from_bits round trip, Const.cast value, "
        "FlagView | & ^ ~ (view op view, view op member, member op view) read back in simulation == Python enum.Flag. "
        "Non-trivial: nesting >=2, or a signed/enum field, or overlapping flexible fields, or a dynamic array index; "
        "enum cases with >=3 members. Distinct by canonical hash of the case.")
ASSUMPTIONS = [
    "Enum-shaped fields are only read back as members when the raw slice is a member value (from_bits documents ValueError otherwise).",
    "Flag operands are combinations of defined members (Python's STRICT boundary rejects other bits).",
    "Arrays of zero-width elements are not indexed by a value (Value.word_select documents and the test-suite pins a TypeError for width 0).",
    "hdl.Const initialisers are interpreted as the documented 'field assigned to the corresponding value' (truncate / extend by own signedness).",
]
QUICK_SHARDS = 4
THOROUGH_SHARDS = 16


# ------------------------------------------------------------------------------------------ descriptors and model
def draw_leaf(draw):
    k = draw(INT(0, 9))
    if k <= 4:
        return ["u", draw(st.one_of(INT(0, 2), INT(0, 5)))]
    if k <= 7:
        return ["s", draw(INT(1, 5))]
    w = draw(INT(1, 3))
    s = draw(INT(0, 3)) == 0
    lo, hi = (-(1 << (w - 1)), (1 << (w - 1)) - 1) if s else (0, (1 << w) - 1)
    vals = sorted(set(draw(INT(lo, hi)) for _ in range(draw(INT(1, 4)))))
    return ["enum", w, vals, s]


def draw_layout(draw, depth, budget=24):
    k = draw(INT(0, 3)) if depth > 0 else 0
    names = ["a", "b", "c", "d", "e"]
    if k == 0 or budget <= 1:
        kind = draw(INT(0, 3))
        n = draw(INT(1, 4))
        if kind <= 1:      # struct of leaves
            return ["struct", [[names[i], draw_leaf(draw)] for i in range(n)]]
        if kind == 2:
            return ["union", [[names[i], draw_leaf(draw)] for i in range(n)]]
        return ["array", draw_leaf(draw), draw(INT(0, 4))]
    sub = lambda b: draw_layout(draw, depth - 1, b) if draw(INT(0, 2)) == 0 else draw_leaf(draw)
    if k == 1:
        n = draw(INT(1, 3))
        return ["struct", [[names[i], sub(budget // n)] for i in range(n)]]
    if k == 2:
        n = draw(INT(1, 3))
        return ["union", [[names[i], sub(budget)] for i in range(n)]]
    if k == 3 and draw(BOOL):
        n = draw(INT(0, 3))
        return ["array", sub(budget // max(n, 1)), n]
    # flexible: fields at arbitrary offsets (gaps, overlaps), int and str keys
    n = draw(INT(1, 3))
    fields = []
    keys = ["a", "b", 0, 1, "c"]
    for i in range(n):
        f = sub(budget // 2)
        fields.append([keys.pop(draw(INT(0, len(keys) - 1))), f, draw(INT(0, 6))])
    need = max([off + width(f) for _, f, off in fields] + [0])
    return ["flex", need + draw(INT(0, 3)), fields]


def width(d):
    k = d[0]
    if k in ("u", "s", "enum"):
        return d[1]
    if k == "struct":
        return sum(width(f) for _, f in d[1])
    if k == "union":
        return max([width(f) for _, f in d[1]] + [0])
    if k == "array":
        return width(d[1]) * d[2]
    if k == "flex":
        return d[1]
    raise HarnessError(d)


def fields(d):
    """[(key, field descriptor, offset)] by the documented placement rules."""
    k = d[0]
    if k == "struct":
        out, off = [], 0
        for name, f in d[1]:
            out.append((name, f, off)); off += width(f)
        return out
    if k == "union":
        return [(name, f, 0) for name, f in d[1]]
    if k == "array":
        return [(i, d[1], i * width(d[1])) for i in range(d[2])]
    if k == "flex":
        return [(key, f, off) for key, f, off in d[2]]
    return []


def is_leaf(d):
    return d[0] in ("u", "s", "enum")


def leaf_signed(d):
    return d[0] == "s" or (d[0] == "enum" and d[3])


def depth_of(d):
    return 0 if is_leaf(d) else 1 + max([depth_of(f) for _, f, _ in fields(d)] + [depth_of(d[1]) if d[0] == "array" else 0])


def interesting(d):
    if is_leaf(d):
        return d[0] != "u"
    if d[0] == "flex":
        fs = fields(d)
        for i, (_, f, o) in enumerate(fs):
            for _, g, p in fs[i + 1:]:
                if o < p + width(g) and p < o + width(f) and width(f) and width(g):
                    return True
    subs = [f for _, f, _ in fields(d)] + ([d[1]] if d[0] == "array" else [])
    return any(interesting(f) for f in subs)


def sx(v, w, s):
    v &= (1 << w) - 1 if w else 0
    if s and w and v >> (w - 1):
        v -= 1 << w
    return v


class Builder:
    def __init__(self):
        self.enums = {}

    def enum(self, d):
        key = repr(d)
        if key not in self.enums:
            name = f"E{len(self.enums)}"
            ns = aenum.EnumType.__prepare__(name, (aenum.Enum,))
            for v in d[2]:
                ns[f"M{v}".replace("-", "n")] = v
            self.enums[key] = aenum.EnumType(name, (aenum.Enum,), ns, shape=signed(d[1]) if d[3] else unsigned(d[1]))
        return self.enums[key]

    @staticmethod
    def disown(cls, members, *size):
        lay = cls(*size, members)
        members.pop(next(iter(members)), None) if members else None
        members["zz_added_later"] = data.Field(unsigned(1), 0) if size else unsigned(1)
        return lay

    def shape(self, d):
        k = d[0]
        # every third plain leaf is spelled the other documented way: a range with the same shape (or a bare width)
        if k in ("u", "s") and d[1] >= 1:
            self.nleaf = getattr(self, "nleaf", 0) + 1
            if self.nleaf % 3 == 0:
                alt = range(1 << d[1]) if k == "u" else range(-(1 << (d[1] - 1)), 1 << (d[1] - 1))
                if k == "u" and self.nleaf % 2 == 0:
                    alt = d[1]
                if Shape.cast(alt) == (unsigned(d[1]) if k == "u" else signed(d[1])):
                    self.alt_spellings = getattr(self, "alt_spellings", 0) + 1
                    return alt
        if k == "u": return unsigned(d[1])
        if k == "s": return signed(d[1])
        if k == "enum": return self.enum(d)
        # a layout is a value of its own: the dictionary it was built from is the caller's, who changes it afterwards
        if k == "struct": return self.disown(data.StructLayout, {n: self.shape(f) for n, f in d[1]})
        if k == "union": return self.disown(data.UnionLayout, {n: self.shape(f) for n, f in d[1]})
        if k == "array": return data.ArrayLayout(self.shape(d[1]), d[2])
        if k == "flex": return self.disown(data.FlexibleLayout, {key: data.Field(self.shape(f), off) for key, f, off in d[2]}, d[1])
        raise HarnessError(d)

    def pyvalue(self, d, raw, style=0, top=True):
        """A Python-level initialiser for the bit pattern `raw` of a field with descriptor d (style 1: aggregates
        below the top are given as constants of their layout).  `denoted` says which pattern it denotes."""
        if d[0] == "u":
            return raw
        if d[0] == "s":
            return sx(raw, d[1], True)
        if d[0] == "enum":
            v = sx(raw, d[1], d[3])
            return self.enum(d)(v) if v in d[2] else None
        if style == 1 and not top:
            return self.shape(d).from_bits(raw)
        if d[0] == "array":
            w = width(d[1])
            vs = [self.pyvalue(d[1], (raw >> (i * w)) & ((1 << w) - 1), style, False) for i in range(d[2])]
            return None if any(v is None for v in vs) else vs
        if d[0] == "union":
            # one field only: take the widest, so that the whole pattern is expressed
            if not d[1]:
                return {}
            name, f = max(d[1], key=lambda nf: width(nf[1]))
            v = self.pyvalue(f, raw & ((1 << width(f)) - 1), style, False)
            return {name: v} if v is not None else None
        out = {}
        for key, f, off in fields(d):
            v = self.pyvalue(f, (raw >> off) & ((1 << width(f)) - 1), style, False)
            if v is None:
                return None
            out[key] = v
        return out


def denoted(d, raw, style=0, top=True):
    """The bit pattern that Builder.pyvalue(d, raw, style) denotes: bits no named field covers (padding of a
    flexible layout, the part of a union beyond the member given) stay zero; fields are written in key order."""
    raw &= (1 << width(d)) - 1
    if is_leaf(d) or (style == 1 and not top):
        return raw
    if d[0] == "array":
        w = width(d[1])
        return sum(denoted(d[1], (raw >> (i * w)) & ((1 << w) - 1), style, False) << (i * w) for i in range(d[2]))
    if d[0] == "union":
        if not d[1]:
            return 0
        name, f = max(d[1], key=lambda nf: width(nf[1]))
        return denoted(f, raw & ((1 << width(f)) - 1), style, False)
    out = 0
    for key, f, off in fields(d):
        m = (1 << width(f)) - 1
        out = (out & ~(m << off)) | (denoted(f, (raw >> off) & m, style, False) << off)
    return out


def paths(d, prefix=(), off=0, maxdepth=3):
    """All (path, descriptor, absolute offset) below d."""
    out = []
    for key, f, o in fields(d):
        out.append((prefix + (key,), f, off + o))
        if not is_leaf(f) and maxdepth > 1:
            out += paths(f, prefix + (key,), off + o, maxdepth - 1)
    return out


def follow(obj, path):
    for p in path:
        obj = obj[p]
    return obj


def check_read(b, got, d, bits, what, path):
    """`got` is what amaranth returned for a field whose bit pattern is `bits`."""
    w = width(d)
    if d[0] in ("u", "s"):
        exp = sx(bits, w, d[0] == "s")
        if not isinstance(got, int) or got != exp:
            raise Mismatch("field-read", what=what, path=list(path), expected=exp, actual=repr(got))
    elif d[0] == "enum":
        v = sx(bits, w, d[3])
        if v in d[2]:
            if got is not b.enum(d)(v):
                raise Mismatch("field-read-enum", what=what, path=list(path), expected=v, actual=repr(got))
    else:
        if not isinstance(got, data.Const) or got.as_bits() != bits:
            raise Mismatch("field-read-aggregate", what=what, path=list(path), expected=bits, actual=repr(got))
        if data.Layout.cast(got.shape()) != b.shape(d):
            raise Mismatch("field-read-layout", what=what, path=list(path))


# ------------------------------------------------------------------------------------------ layouts
@st.composite
def layout_cases(draw, depth):
    d = draw_layout(draw, draw(INT(0, depth)))
    w = width(d)
    if w <= 6:
        raws = list(range(1 << w))
    else:
        corner = [0, (1 << w) - 1, int(("01" * w)[:w], 2), int(("10" * w)[:w], 2)]
        raws = sorted(set(corner + [draw(INT(0, (1 << w) - 1)) for _ in range(draw(INT(8, 36)))]))
    ps = paths(d)
    # assignments through a view path
    assigns = []
    for _ in range(draw(INT(1, 4))):
        if not ps:
            break
        i = draw(INT(0, len(ps) - 1))
        fw = width(ps[i][1])
        assigns.append([i, draw(INT(0, (1 << w) - 1)) if w else 0, draw(INT(0, (1 << fw) - 1)) if fw else 0])
    # const() initialisers: list of (path index into the TOP-LEVEL fields, style, value, [const width, const signed])
    top = fields(d)
    inits = []
    if top and d[0] != "union":
        for _ in range(draw(INT(0, 5))):
            i = draw(INT(0, len(top) - 1))
            fw = width(top[i][1])
            inits.append([i, draw(INT(0, 3)), draw(INT(0, (1 << fw) - 1)) if fw else 0,
                          draw(INT(1, 7)), draw(BOOL), draw(INT(-40, 40))])
    return {"layout": d, "raws": raws, "assigns": assigns, "inits": inits, "dyn": draw(INT(0, 7))}


def layout_body(ctx, case):
    d, raws = case["layout"], case["raws"]
    w = width(d)
    with warnings.catch_warnings():
        warnings.simplefilter("ignore")
        b = Builder()
        lay = b.shape(d)
        # ---- placement
        if lay.size != w:
            raise Mismatch("layout-size", expected=w, actual=lay.size)
        if Shape.cast(lay) != unsigned(w):
            raise Mismatch("layout-shape", actual=repr(Shape.cast(lay)))
        for key, f, off in fields(d):
            fld = lay[key]
            if fld.offset != off or fld.width != width(f):
                raise Mismatch("field-placement", key=key, expected=[off, width(f)], actual=[fld.offset, fld.width])
        ps = paths(d)
        # ---- constants: from_bits / as_bits / read-back at every path
        for raw in raws:
            c = lay.from_bits(raw)
            if not isinstance(c, data.Const) or c.as_bits() != raw:
                raise Mismatch("from_bits-as_bits", raw=raw, actual=repr(c))
            if hdl.Const.cast(lay.const(c)).value != raw or hdl.Const.cast(c).value != raw:
                raise Mismatch("const-of-from_bits", raw=raw)
            for path, f, off in ps:
                bits = (raw >> off) & ((1 << width(f)) - 1)
                try:
                    got = follow(c, path)
                except ValueError:
                    if any(x[0] == "enum" for x in [f] + [g for p2, g, _ in ps if path[:len(p2)] == p2]):
                        continue       # an enum field on the way holds a non-member pattern
                    raise
                check_read(b, got, f, bits, "from_bits(raw)[path]", path)
            # build the same constant from Python-level field values (two styles) and read it back
            for style in (0, 1):
                init = b.pyvalue(d, raw, style) if not is_leaf(d) else None
                if init is None or isinstance(init, data.Const):
                    continue
                c2 = lay.const(init)
                exp = denoted(d, raw, style)
                if c2.as_bits() != exp:
                    raise Mismatch("const-from-field-values", raw=raw, style=style, init=repr(init)[:300],
                                   expected=exp, actual=c2.as_bits())
        # ---- const() with generated initialiser order and hdl.Const values of other widths
        if case["inits"]:
            top = fields(d)
            exp = 0
            init = {}
            order = []
            for i, style, v, cw, cs, cv in case["inits"]:
                key, f, off = top[i]
                fw = width(f)
                if style == 3 and is_leaf(f) and f[0] != "enum":
                    val = hdl.Const(cv, Shape(cw, cs))
                    bits = hdl.Const(cv, Shape(cw, cs)).value & ((1 << fw) - 1) if fw else 0
                else:
                    val = b.pyvalue(f, v, style % 2, False)
                    bits = denoted(f, v, style % 2, False)
                    if val is None:
                        continue
                if key in init:
                    del init[key]      # re-inserting moves the key to the end (later assignment wins)
                init[key] = val
                order = [o for o in order if o[0] != key] + [(key, off, fw, bits)]
            for key, off, fw, bits in order:
                mask = ((1 << fw) - 1) << off
                exp = (exp & ~mask) | (bits << off)
            if init:
                got = lay.const(init).as_bits()
                if got != exp:
                    raise Mismatch("const-initialiser-order-or-width", init=repr(init)[:300], expected=exp, actual=got)
                ctx.tally("lay:const-generated-initialiser")
                if any(isinstance(v, hdl.Const) for v in init.values()):
                    ctx.tally("lay:const-hdl-const-initialiser")
        # ---- simulation: reads through views, writes through views
        m = Module()
        m.domains.sync = cd = ClockDomain()
        view = Signal(lay, name="view")
        base_in = Signal(w, name="base_in")
        combv = Signal(lay, name="combv")
        regv = Signal(lay, name="regv")
        m.d.comb += Value.cast(combv).eq(base_in)
        m.d.sync += Value.cast(regv).eq(base_in)
        wr = []
        for j, (pi, base, val) in enumerate(case["assigns"]):
            path, f, off = ps[pi]
            vin = Signal(width(f), name=f"val{j}")
            sel = Signal(name=f"sel{j}")
            with m.If(sel):
                m.d.comb += follow(combv, path).eq(vin)
                m.d.sync += follow(regv, path).eq(vin)
            wr.append((path, f, off, base, val, vin, sel))
        dyn = None
        arrs = [(p, f, o) for p, f, o in [((), d, 0)] + ps if f[0] == "array" and f[2] > 0]
        dynarrs = [a for a in arrs if width(a[1][1]) > 0]
        if dynarrs:
            arrs_for_dyn = dynarrs
        else:
            arrs_for_dyn = []
        if arrs_for_dyn:
            p, f, o = arrs_for_dyn[case["dyn"] % len(arrs_for_dyn)]
            idx = Signal(range(f[2]), name="idx")
            dyn = (p, f, o, idx, follow(view, p)[idx])
            m.d.comb += Signal(width(f[1]) or 1, name="dyn_keep").eq(Value.cast(dyn[4]))
        if elaborated_before(case, m):
            ctx.tally("reuse:design-elaborated-before")
        sim = Simulator(m)
        fail = []
        nread = [0]

        async def tb(c):
            vv = Value.cast(view)
            for raw in raws[:24]:
                c.set(vv, raw)
                for path, f, off in ps:
                    bits = (raw >> off) & ((1 << width(f)) - 1)
                    fv = follow(view, path)
                    got = c.get(Value.cast(fv))
                    exp = sx(bits, width(f), leaf_signed(f)) if is_leaf(f) else bits
                    nread[0] += 1
                    if got != exp:
                        fail.append(Mismatch("view-read", raw=raw, path=list(path), expected=exp, actual=got)); return
                    if is_leaf(f) and f[0] == "enum" and exp not in f[2]:
                        continue
                    try:
                        got2 = c.get(fv)
                    except ValueError:
                        continue
                    try:
                        check_read(b, got2, f, bits, "ctx.get(view[path])", path)
                    except Mismatch as mm:
                        fail.append(mm); return
                if dyn is not None:
                    p, f, o, idx, expr = dyn
                    ew = width(f[1])
                    for i in range(f[2]):
                        c.set(idx, i)
                        bits = (raw >> (o + i * ew)) & ((1 << ew) - 1)
                        exp = sx(bits, ew, leaf_signed(f[1])) if is_leaf(f[1]) else bits
                        got = c.get(Value.cast(expr))
                        if got != exp:
                            fail.append(Mismatch("view-dynamic-index", raw=raw, path=list(p), index=i, expected=exp, actual=got)); return
            # array slices
            for p, f, o in arrs[:2]:
                ew = width(f[1])
                for sl in (slice(1, None), slice(None, None, 2), slice(-2, None), slice(None, None, -1)):
                    idxs = list(range(f[2]))[sl]
                    raw = raws[len(raws) // 2]
                    c.set(vv, raw)
                    exp = 0
                    for n_, i in enumerate(idxs):
                        exp |= ((raw >> (o + i * ew)) & ((1 << ew) - 1)) << (n_ * ew)
                    got = c.get(Value.cast(follow(view, p)[sl]))
                    cgot = follow(lay.from_bits(raw), p)[sl].as_bits()
                    if got != exp or cgot != exp:
                        fail.append(Mismatch("array-slice", path=list(p), slice=repr(sl), expected=exp, view=got, const=cgot)); return
            # writes
            for path, f, off, base, val, vin, sel in wr:
                fw = width(f)
                mask = ((1 << fw) - 1) << off
                exp = (base & ~mask) | (val << off)
                # (1) testbench write through the view field
                c.set(vv, base)
                tgt = follow(view, path)
                c.set(Value.cast(tgt), val)
                got = c.get(vv)
                if got != exp:
                    fail.append(Mismatch("view-write-ctx.set", path=list(path), base=base, value=val, expected=exp, actual=got)); return
                # (1b) the same with the Python-level value (dict / member / int) through the shape-castable path
                pv = b.pyvalue(f, val, 0)
                if pv is not None and not is_leaf(f) or (is_leaf(f) and f[0] == "enum" and pv is not None):
                    c.set(vv, base)
                    c.set(tgt, pv)
                    got = c.get(vv)
                    exp2 = (base & ~mask) | (denoted(f, val, 0) << off)
                    if got != exp2:
                        fail.append(Mismatch("view-write-ctx.set-python-value", path=list(path), base=base, value=repr(pv)[:200],
                                             expected=exp2, actual=got)); return
                # (2) combinational statement, (3) clocked statement
                c.set(base_in, base); c.set(vin, val); c.set(sel, 1)
                got = c.get(Value.cast(combv))
                if got != exp:
                    fail.append(Mismatch("view-write-comb-statement", path=list(path), base=base, value=val, expected=exp, actual=got)); return
                c.set(cd.clk, 1); c.set(cd.clk, 0)
                got = c.get(Value.cast(regv))
                if got != exp:
                    fail.append(Mismatch("view-write-sync-statement", path=list(path), base=base, value=val, expected=exp, actual=got)); return
                c.set(sel, 0)
                if c.get(Value.cast(combv)) != base:
                    fail.append(Mismatch("view-write-comb-inactive", path=list(path))); return
        sim.add_testbench(tb)
        sim.run()
        if fail:
            raise fail[0]
        # ---- synthesis: the same view reads / writes in the emitted RTLIL, executed by the independent evaluator
        if wr or ps:
            from amaranth.hdl import Fragment
            from amaranth.back import rtlil
            from vlib import rtlil_read as RR, rtlil_eval as RE
            m2 = Module()
            v2 = Signal(lay, name="v2")
            bin2 = Signal(w, name="bin2")
            m2.d.comb += Value.cast(v2).eq(bin2)
            pd = {"bin2": (bin2, None), "v2": (Value.cast(v2), None)}
            ctl = []
            for j, (path, f, off, base, val, vin, sel) in enumerate(wr):
                vin2 = Signal(width(f), name=f"vin{j}"); sel2 = Signal(name=f"sel{j}")
                with m2.If(sel2):
                    m2.d.comb += follow(v2, path).eq(vin2)
                pd[f"vin{j}"] = (vin2, None); pd[f"sel{j}"] = (sel2, None)
                ctl.append((f"vin{j}", f"sel{j}"))
            rd = []
            for k, (path, f, off) in enumerate(ps[:6]):
                o = Signal(max(width(f), 0), name=f"fld{k}")
                m2.d.comb += o.eq(Value.cast(follow(v2, path)))
                pd[f"fld{k}"] = (o, None)
                rd.append((f"fld{k}", f, off))
            # a field assignment FOLLOWED by an unconditional assignment of the whole view: the later one wins everywhere
            v3 = Signal(lay, name="v3")
            v4 = Signal(lay, name="v4")
            for j, (path, f, off, base, val, vin, sel) in enumerate(wr[:1]):
                with m2.If(pd[f"sel{j}"][0]):
                    m2.d.comb += follow(v3, path).eq(pd[f"vin{j}"][0])
                m2.d.comb += follow(v4, path).eq(pd[f"vin{j}"][0])
            m2.d.comb += [Value.cast(v3).eq(bin2), Value.cast(v4).eq(bin2)]
            pd["v3"] = (Value.cast(v3), None); pd["v4"] = (Value.cast(v4), None)
            text, _ = rtlil.convert_fragment(Fragment.get(m2, None), ports=pd, name="top")
            ev = RE.Evaluator(RR.parse(text))
            def rset(upd):
                upd = {"\\" + k_: v_ for k_, v_ in upd.items() if "\\" + k_ in ev.inputs}
                if upd:
                    ev.set_inputs(upd)
            rset({n_: 0 for n_ in pd})
            for raw in raws[:8]:
                rset({"bin2": raw})
                for name, f, off in rd:
                    if ("\\" + name,) in ev.wires:
                        rv, rx = ev.get(("\\" + name,))
                        exp = (raw >> off) & ((1 << width(f)) - 1)
                        if (rv ^ exp) & ~rx:
                            raise Mismatch("view-read-in-rtlil", raw=raw, field_offset=off, field_width=width(f), expected=exp, actual=rv)
            for (vn, sn), (path, f, off, base, val, vin, sel) in zip(ctl, wr):
                rset({"bin2": base, vn: val, sn: 1})
                rv, rx = ev.get(("\\v2",)) if ("\\v2",) in ev.wires else (None, 0)
                fw = width(f)
                mask = ((1 << fw) - 1) << off
                exp = (base & ~mask) | (val << off)
                if rv is not None and (rv ^ exp) & ~rx:
                    raise Mismatch("view-write-in-rtlil", path=list(path), base=base, value=val, expected=exp, actual=rv)
                for nm in ("v3", "v4"):
                    if ("\\" + nm,) in ev.wires:
                        r3, x3 = ev.get(("\\" + nm,))
                        if (r3 ^ base) & ~x3:
                            raise Mismatch("whole-view-assignment-after-field-assignment-in-rtlil", signal=nm, path=list(path),
                                           base=base, value=val, expected=base, actual=r3)
                rset({sn: 0})
            ctx.tally("lay:rtlil-leg")
    keys = ["lay:" + d[0], "lay:depth%d" % min(depth_of(d), 3)]
    if interesting(d): keys.append("lay:signed-enum-or-overlap")
    if dyn is not None: keys.append("lay:dynamic-index")
    if wr: keys.append("lay:write-through-view")
    if any(f[0] == "enum" for _, f, _ in ps): keys.append("lay:enum-field")
    if w <= 6: keys.append("lay:all-patterns")
    ctx.note(case, depth_of(d) >= 2 or interesting(d) or dyn is not None, *keys, evals=len(raws) * max(len(ps), 1))


# ------------------------------------------------------------------------------------------ Struct / Union classes
@st.composite
def class_cases(draw):
    kind = PICK(draw, ["struct", "struct", "union"])
    n = draw(INT(1, 4))
    names = ["a", "b", "c", "d"]
    fl = [[names[i], draw_leaf(draw) if draw(INT(0, 2)) else draw_layout(draw, 0, 8)] for i in range(n)]
    d = [kind, fl]
    defaults = {}
    for name, f in fl:
        if draw(BOOL) and (kind == "struct" or not defaults):
            defaults[name] = draw(INT(0, (1 << width(f)) - 1)) if width(f) else 0
    over = {}
    for name, f in fl:
        if draw(INT(0, 2)) == 0 and (kind == "struct" or not over):
            over[name] = draw(INT(0, (1 << width(f)) - 1)) if width(f) else 0
    raw = draw(INT(0, (1 << width(d)) - 1)) if width(d) else 0
    return {"layout": d, "defaults": defaults, "override": over, "raw": raw}


def class_body(ctx, case):
    d = case["layout"]
    with warnings.catch_warnings():
        warnings.simplefilter("ignore")
        b = Builder()
        ns = {"__annotations__": {name: b.shape(f) for name, f in d[1]}}
        fdesc = dict((n, f) for n, f in d[1])
        offs = {k: o for k, _, o in fields(d)}
        dv = {}
        for name, raw in case["defaults"].items():
            v = b.pyvalue(fdesc[name], raw)
            if v is not None:
                ns[name] = v
                dv[name] = denoted(fdesc[name], raw)
        base = data.Struct if d[0] == "struct" else data.Union
        cls = type("Agg", (base,), ns)
        lay = b.shape(d)
        if data.Layout.cast(cls) != lay or cls.as_shape() != lay:
            raise Mismatch("class-layout", expected=repr(lay), actual=repr(cls.as_shape()))

        def compose(vals):
            x = 0
            for name, f in d[1]:
                if name in vals:
                    mask = ((1 << width(f)) - 1) << offs[name]
                    x = (x & ~mask) | (vals[name] << offs[name])
            return x
        s0 = Signal(cls)
        if not isinstance(s0, cls):
            raise Mismatch("signal-of-class-is-not-instance")
        if Value.cast(s0).init != compose(dv):
            raise Mismatch("class-default-init", defaults=dv, expected=compose(dv), actual=Value.cast(s0).init)
        ov = {}
        oinit = {}
        for name, raw in case["override"].items():
            v = b.pyvalue(fdesc[name], raw)
            if v is not None:
                oinit[name] = v; ov[name] = denoted(fdesc[name], raw)
        if oinit:
            s1 = Signal(cls, init=oinit)
            exp = compose(ov) if d[0] == "union" else compose({**dv, **ov})
            if Value.cast(s1).init != exp:
                raise Mismatch("class-init-override", defaults=dv, override=ov, expected=exp, actual=Value.cast(s1).init)
            ctx.tally("cls:init-override")
            # using the class with an initialiser must not change what later uses get
            s2 = Signal(cls)
            if Value.cast(s2).init != compose(dv) or hdl.Const.cast(cls.const(None)).value != compose(dv):
                raise Mismatch("class-defaults-changed-by-an-earlier-use", defaults=dv, override=ov, expected=compose(dv),
                               actual=Value.cast(s2).init)
        # copies made with Signal.like keep the shape and the initial pattern (also an all-zero pattern given
        # explicitly, which must not fall back to the class defaults)
        zinit = {name: b.pyvalue(f, 0) for name, f in (d[1] if d[0] == "struct" else d[1][:1])}
        srcs = [("defaults", s0, compose(dv))]
        if oinit:
            srcs.append(("override", s1, Value.cast(s1).init))
        if all(v is not None for v in zinit.values()) and zinit:
            sz = Signal(cls, init=zinit)
            if Value.cast(sz).init != 0:
                raise Mismatch("class-init-all-zero", defaults=dv, expected=0, actual=Value.cast(sz).init)
            srcs.append(("all-zero", sz, 0))
            if dv and compose(dv): ctx.tally("cls:zero-init-over-nonzero-defaults")
        for what, src, exp in srcs:
            cp = Signal.like(src)
            if not isinstance(cp, cls) or Value.cast(cp).init != exp:
                raise Mismatch("signal-like-copy", source=what, defaults=dv, expected=exp,
                               actual=Value.cast(cp).init if isinstance(cp, cls) else repr(type(cp)))
            cp2 = Signal.like(Value.cast(src))
            if Value.cast(cp2).init != exp:
                raise Mismatch("signal-like-copy-of-underlying-value", source=what, expected=exp, actual=Value.cast(cp2).init)
        # attribute access == item access, const round trip
        raw = case["raw"]
        c = cls.from_bits(raw)
        if c.as_bits() != raw or hdl.Const.cast(cls.const(c)).value != raw:
            raise Mismatch("class-from_bits", raw=raw)
        for name, f in d[1]:
            bits = (raw >> offs[name]) & ((1 << width(f)) - 1)
            try:
                got = getattr(c, name)
            except ValueError:
                continue
            check_read(b, got, f, bits, "Class.from_bits(raw).<field>", (name,))
            if repr(getattr(s0, name)) != repr(s0[name]):
                raise Mismatch("attribute-vs-item", field=name)
    keys = ["cls:" + d[0]]
    if dv: keys.append("cls:defaults")
    ctx.note(case, bool(dv) or bool(ov), *keys, evals=1)


# ------------------------------------------------------------------------------------------ enums / flags
@st.composite
def enum_cases(draw):
    kind = PICK(draw, ["Enum", "IntEnum", "Flag", "IntFlag", "Flag", "Flag"])
    if kind in ("Flag", "IntFlag"):
        nb = draw(INT(1, 5))
        members = {}
        bits = list(range(nb))
        for i in bits:
            if draw(INT(0, 4)):
                members[f"F{i}"] = 1 << i
        for j in range(draw(INT(0, 2))):
            v = draw(INT(1, (1 << nb) - 1))
            if v not in members.values():
                members[f"C{j}"] = v         # multi-bit (possibly with a bit that has no single-bit name)
        if not members:
            members["F0"] = 1
        if draw(INT(0, 3)) == 0:
            members["ZERO"] = 0
        allmask = 0
        for v in members.values():
            allmask |= v
        w = max(allmask.bit_length(), 1) + draw(INT(0, 2))
        ops = []
        for _ in range(draw(INT(3, 10))):
            a = draw(INT(0, (1 << w) - 1)) & allmask
            bb = draw(INT(0, (1 << w) - 1)) & allmask
            ops.append([a, bb])
        return {"kind": kind, "members": members, "width": w, "signed": False, "ops": ops}
    s = draw(INT(0, 2)) == 0
    w = draw(INT(1, 5))
    lo, hi = (-(1 << (w - 1)), (1 << (w - 1)) - 1) if s else (0, (1 << w) - 1)
    vals = sorted(set(draw(INT(lo, hi)) for _ in range(draw(INT(1, 6)))))
    return {"kind": kind, "members": {f"M{i}": v for i, v in enumerate(vals)}, "width": w, "signed": s, "ops": []}


def enum_body(ctx, case):
    kind, members, w = case["kind"], case["members"], case["width"]
    with warnings.catch_warnings():
        warnings.simplefilter("ignore")
        base = getattr(aenum, kind)
        ns = aenum.EnumType.__prepare__("E", (base,))
        for k, v in members.items():
            ns[k] = v
        shp = signed(w) if case["signed"] else unsigned(w)
        E = aenum.EnumType("E", (base,), ns, shape=shp)
        pybase = getattr(py_enum, kind)
        P = pybase("P", members)
        if Shape.cast(E) != shp:
            raise Mismatch("enum-shape", expected=repr(shp), actual=repr(Shape.cast(E)))
        for m_ in E:
            c = E.const(m_)
            if hdl.Const.cast(c).value != m_.value:
                raise Mismatch("enum-const-value", member=m_.name, expected=m_.value, actual=hdl.Const.cast(c).value)
            raw = m_.value & ((1 << w) - 1)
            back = E.from_bits(m_.value)
            if back is not m_:
                raise Mismatch("enum-from_bits", member=m_.name, actual=repr(back))
            if hdl.Const.cast(E.const(E.from_bits(m_.value))).value != m_.value:
                raise Mismatch("enum-const-from_bits-round-trip", member=m_.name)
        keys = ["enum:" + kind]
        nops = 0
        if kind in ("Flag", "IntFlag") and case["ops"]:
            m = Module()
            a, b_ = Signal(E, name="a"), Signal(E, name="b")
            is_view = kind == "Flag"
            exprs = {}
            if is_view:
                if not isinstance(a, aenum.FlagView):
                    raise Mismatch("flag-signal-is-not-a-FlagView", actual=type(a).__name__)
                exprs = {"or": a | b_, "and": a & b_, "xor": a ^ b_, "inv": ~a}
            keep = Signal(8)
            m.d.comb += keep.eq(Value.cast(a) ^ Value.cast(b_))
            sim = Simulator(m)
            fail = []

            async def tb(c):
                nonlocal nops
                for x, y in case["ops"]:
                    c.set(Value.cast(a), x); c.set(Value.cast(b_), y)
                    try:
                        px, py = P(x), P(y)
                        want = {"or": px | py, "and": px & py, "xor": px ^ py, "inv": ~px}
                    except ValueError:
                        ctx.tally("enum:operands-rejected-by-python-flag")   # Python's own validity rule; not judged
                        continue
                    for name, e in exprs.items():
                        got = c.get(Value.cast(e))
                        nops += 1
                        if got != want[name].value:
                            fail.append(Mismatch("flag-operator", op=name, a=x, b=y, members=members,
                                                 expected=want[name].value, actual=got)); return
                        if not isinstance(e, aenum.FlagView) or e.shape() is not E:
                            fail.append(Mismatch("flag-operator-result-type", op=name)); return
                    if is_view:
                        # member on either side (only defined members can be written as Python-level operands)
                        for mem in E:
                            try:
                                pm = P(mem.value)
                                forms = {"view|m": (a | mem, px | pm), "m|view": (mem | a, pm | px),
                                         "view&m": (a & mem, px & pm), "m&view": (mem & a, pm & px),
                                         "view^m": (a ^ mem, px ^ pm), "m^view": (mem ^ a, pm ^ px)}
                            except ValueError:
                                continue
                            for name, (e, wv) in forms.items():
                                got = c.get(Value.cast(e))
                                nops += 1
                                if got != wv.value:
                                    fail.append(Mismatch("flag-operator-with-member", form=name, a=x, member=mem.value,
                                                         members=members, expected=wv.value, actual=got)); return
                        # the value read back through the shape-castable path is the Python flag
                        try:
                            ex = E(x)
                        except ValueError:
                            continue
                        got = c.get(a)
                        if got != ex or got.value != px.value:
                            fail.append(Mismatch("flag-get", a=x, actual=repr(got))); return
            sim.add_testbench(tb)
            sim.run()
            if fail:
                raise fail[0]
            if is_view: keys.append("enum:flag-ops")
            singles = 0
            for v in members.values():
                if v and v & (v - 1) == 0:
                    singles |= v
            if any(v & ~singles for v in members.values()): keys.append("enum:flag-multibit-with-unnamed-bit")
    ctx.note(case, len(members) >= 3, *keys, evals=len(members) + nops)


# ------------------------------------------------------------------------------------------ nested aggregate classes
@st.composite
def nested_cases(draw):
    def inner(level):
        fs = []
        for i in range(draw(INT(1, 3))):
            w = draw(INT(1, 4))
            fs.append({"name": f"f{i}", "w": w, "default": draw(INT(0, (1 << w) - 1)) if draw(INT(0, 3)) else None})
        node = {"fields": fs, "kind": PICK(draw, ["absent", "empty", "none", "partial", "absent", "empty"]),
                "partial": None, "child": None}
        if node["kind"] == "partial":
            f = PICK(draw, fs)
            node["partial"] = [f["name"], draw(INT(0, (1 << f["w"]) - 1))]
        if level > 0 and draw(BOOL):
            node["child"] = inner(level - 1)
        return node
    return {"tree": inner(draw(INT(0, 2))), "uses": [PICK(draw, ["none", "empty", "override"]) for _ in range(draw(INT(1, 3)))]}


def nested_body(ctx, case):
    counter = [0]

    def build(node):
        """-> (class, width, value of Class.const(None))"""
        ann, ns = {}, {}
        off, dflt = 0, 0
        for f in node["fields"]:
            ann[f["name"]] = unsigned(f["w"])
            if f["default"] is not None:
                ns[f["name"]] = f["default"]
                dflt |= f["default"] << off
            off += f["w"]
        if node["child"] is not None:
            ccls, cw, cd = build(node["child"])
            ann["child"] = ccls
            k = node["child"]["kind"]
            if k == "empty":
                ns["child"] = {}; dflt |= cd << off
            elif k == "none":
                ns["child"] = None; dflt |= cd << off
            elif k == "partial":
                nm, v = node["child"]["partial"]
                ns["child"] = {nm: v}
                o2 = 0
                val = cd
                for f in node["child"]["fields"]:
                    if f["name"] == nm:
                        val = (val & ~(((1 << f["w"]) - 1) << o2)) | (v << o2)
                    o2 += f["w"]
                dflt |= val << off
            # absent: the nested field is not initialised at all (zero bits)
            off += cw
        ns["__annotations__"] = ann
        counter[0] += 1
        return type(f"N{counter[0]}", (data.Struct,), ns), off, dflt

    with warnings.catch_warnings():
        warnings.simplefilter("ignore")
        cls, w, dflt = build(case["tree"])
        first = None
        for use in case["uses"]:
            got = hdl.Const.cast(cls.const(None if use != "empty" else {})).value
            if got != dflt:
                raise Mismatch("nested-class-defaults", tree=case["tree"], use=use, expected=dflt, actual=got)
            sig = Signal(cls)
            if Value.cast(sig).init != dflt:
                raise Mismatch("nested-class-signal-init", tree=case["tree"], expected=dflt, actual=Value.cast(sig).init)
            if use == "override":
                f = case["tree"]["fields"][0]
                v = (1 << f["w"]) - 1
                got = hdl.Const.cast(cls.const({f["name"]: v})).value
                exp = (dflt & ~((1 << f["w"]) - 1)) | v
                if got != exp:
                    raise Mismatch("nested-class-override", expected=exp, actual=got)
            if cls.from_bits(dflt).as_bits() != dflt:
                raise Mismatch("nested-class-from_bits")
    def depth(n): return 1 + (depth(n["child"]) if n["child"] else 0)
    def kinds(n): return ([n["child"]["kind"]] + kinds(n["child"])) if n["child"] else []
    keys = ["nest:depth%d" % depth(case["tree"])] + ["nest:child-" + k for k in kinds(case["tree"])]
    ctx.note(case, depth(case["tree"]) >= 2, *keys, evals=len(case["uses"]))


def parts(tier):
    q = tier == "quick"
    return [
        Part("layouts", "hyp", strategy=layout_cases(2 if q else 3), body=layout_body, n=100 if q else 1500),
        Part("classes", "hyp", strategy=class_cases(), body=class_body, n=150 if q else 2000),
        Part("enums", "hyp", strategy=enum_cases(), body=enum_body, n=120 if q else 2000),
        Part("nested", "hyp", strategy=nested_cases(), body=nested_body, n=150 if q else 2000),
    ]


REQUIRED = ["lay:struct", "lay:union", "lay:array", "lay:flex", "lay:depth2", "lay:signed-enum-or-overlap",
            "lay:dynamic-index", "lay:write-through-view", "lay:enum-field", "lay:all-patterns",
            "lay:const-generated-initialiser", "lay:const-hdl-const-initialiser", "lay:rtlil-leg", "cls:struct", "cls:union",
            "cls:defaults", "cls:init-override", "cls:zero-init-over-nonzero-defaults", "enum:Enum", "enum:IntEnum", "enum:Flag", "enum:IntFlag",
            "enum:flag-ops", "enum:flag-multibit-with-unnamed-bit", "nest:depth2", "nest:child-empty", "nest:child-none",
            "nest:child-partial", "nest:child-absent"]
