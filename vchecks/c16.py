"""C16 — CRC software and hardware agree with the Williams model for all parameters."""
import os, json, random, warnings
from hypothesis import strategies as st

from amaranth.hdl import Module, ClockDomain, Fragment
from amaranth.lib.crc import Algorithm, Parameters, Processor, catalog
from amaranth.sim import Simulator

from vlib.runner import Part, Mismatch, HarnessError, HERE
from vlib.gen_expr import INT, BOOL, PICK

PID = "C16"
LEVEL = "exploration"
RULE = ("Oracle: a bit-serial Williams/Rocksoft register model (one shift + conditional XOR per message bit) written "
        "from 'A Painless Guide to CRC Error Detection Algorithms', plus the frozen reveng table of check values "
        "(refdata/crc_catalog.json). (a) catalogue: EVERY catalogue entry x data widths {1,2,3,4,5,7,8,9,16,crc_width,"
        "crc_width+3} x messages (123456789 as bits re-packed into words when the width divides 72, empty, one word, "
        "seeded random messages up to 24 words): Parameters.compute == model, compute(b'123456789') == published "
        "check, catalogue parameters == published parameters. (b) random: Hypothesis parameter sets (crc_width 1..64 "
        "biased to 1..9, any polynomial incl. even ones and 0, any init/xor, all four reflection combinations, data "
        "width 1..72) x word sequences. (c) hardware: Processor simulated cycle by cycle on generated (start, valid, "
        "data) sequences with idle gaps, back-to-back words, restarts mid-stream, start with/without valid and an occasional "
        "domain reset (after which the register holds its initial value again); crc "
        "after every cycle == model of the words since the last start; (d) match: when data_width divides crc_width, "
        "message + its own CRC in transmission order (register bits highest-order first, packed into words according "
        "to reflect_input) => match_detected, and with every other trailer (all of them when crc_width<=8, 64 sampled "
        "otherwise) => not match_detected; negative half only demanded when the polynomial's constant term is 1. "
        "Non-trivial: software cases with >=2 words and data_width not equal to crc_width; hardware runs containing "
        "a restart after data AND an idle gap. Distinct by canonical hash of the case.")
ASSUMPTIONS = [
    "Williams model as oracle: register initialised to initial_crc, message bits enter highest-order first after optional "
    "per-word reflection, output optionally reflected over the whole register and XORed.",
    "For even polynomials (constant term 0) the map trailer -> final register is not injective, so 'no other trailer "
    "matches' is not demanded there (a mathematical fact, not a defect).",
    "Inputs change only between clock edges.",
]
QUICK_SHARDS = 4
THOROUGH_SHARDS = 16

with open(os.path.join(HERE, "refdata", "crc_catalog.json")) as _f:
    CATALOG = json.load(_f)["entries"]
PKEYS = ["crc_width", "polynomial", "initial_crc", "reflect_input", "reflect_output", "xor_output"]


# ------------------------------------------------------------------------------------------ oracle
def reflect(v, n):
    r = 0
    for i in range(n):
        if (v >> i) & 1:
            r |= 1 << (n - 1 - i)
    return r


def word_bits(word, dw, refin):
    """Bits of one data word in the order they enter the register."""
    order = range(dw) if refin else range(dw - 1, -1, -1)
    return [(word >> i) & 1 for i in order]


def williams_register(p, words, dw, reg=None):
    width, poly = p["crc_width"], p["polynomial"]
    mask = (1 << width) - 1
    reg = p["initial_crc"] if reg is None else reg
    for w in words:
        for b in word_bits(w, dw, p["reflect_input"]):
            top = (reg >> (width - 1)) & 1
            reg = (reg << 1) & mask
            if top ^ b:
                reg ^= poly
    return reg


def williams_output(p, reg):
    if p["reflect_output"]:
        reg = reflect(reg, p["crc_width"])
    return reg ^ p["xor_output"]


def williams(p, words, dw):
    return williams_output(p, williams_register(p, words, dw))


def trailer_words(p, crc_out, dw):
    """The CRC output value in transmission order, packed into data words."""
    n = p["crc_width"]
    # stream = register-oriented bits, highest-order term first
    bits = [(crc_out >> i) & 1 for i in (range(n) if p["reflect_output"] else range(n - 1, -1, -1))]
    words = []
    for k in range(0, n, dw):
        chunk = bits[k:k + dw]
        w = 0
        for j, b in enumerate(chunk):
            pos = j if p["reflect_input"] else dw - 1 - j
            w |= b << pos
        words.append(w)
    return words


def algo_of(p):
    return Algorithm(**{k: p[k] for k in PKEYS})


# ------------------------------------------------------------------------------------------ (a) catalogue
def catalog_cases(ctx):
    names = sorted(CATALOG)
    for i, name in enumerate(names):
        if i % ctx.nshards == ctx.shard:
            yield name


def catalog_body(ctx, name):
    ref = CATALOG[name]
    algo = getattr(catalog, name, None)
    if algo is None:
        raise Mismatch("catalogue-entry-missing", name=name)
    got = {k: getattr(algo, k) for k in PKEYS}
    if got != {k: ref[k] for k in PKEYS}:
        raise Mismatch("catalogue-parameters-differ-from-published", name=name, expected={k: ref[k] for k in PKEYS}, actual=got)
    chk = algo(8).compute(b"123456789")
    if chk != ref["check"]:
        raise Mismatch("check-value", name=name, expected=ref["check"], actual=chk)
    if williams(ref, list(b"123456789"), 8) != ref["check"]:
        raise HarnessError(f"oracle disagrees with the published check value for {name}")
    rng = random.Random(ctx.sub_seed(name))
    n = ref["crc_width"]
    widths = sorted({1, 2, 3, 4, 5, 7, 8, 9, 16, n, n + 3})
    if ctx.tier == "thorough":
        widths = sorted(set(widths) | {6, 12, 24, 32, 2 * n, max(1, n - 1)})
    evals = nontriv = 0
    sample = None
    for dw in widths:
        params = algo(dw)
        msgs = [[], [0], [(1 << dw) - 1]]
        for _ in range(4 if ctx.tier == "quick" else 16):
            msgs.append([rng.getrandbits(dw) for _ in range(rng.randint(1, 24))])
        for m in msgs:
            exp = williams(ref, m, dw)
            act = params.compute(m)
            evals += 1
            if len(m) >= 2 and dw != n:
                nontriv += 1
            if act != exp:
                raise Mismatch("compute", name=name, data_width=dw, words=m, expected=exp, actual=act)
        # the check string re-packed into dw-bit words presenting the same bit stream
        if 72 % dw == 0:
            words = check_string_words(dw, ref["reflect_input"])
            if words is not None:
                act = params.compute(words)
                evals += 1
                if act != ref["check"]:
                    raise Mismatch("check-value-repacked", name=name, data_width=dw, words=words,
                                   expected=ref["check"], actual=act)
                ctx.tally("cat:check-repacked")
        sample = {"name": name, "data_width": dw, "words": msgs[-1], "crc": williams(ref, msgs[-1], dw)}
    ctx.note_bulk(evals, nontriv, sample, "cat:entry")


def check_string_words(dw, refin):
    """b'123456789' as a sequence of dw-bit words that presents the same bit stream to the register."""
    stream = []
    for ch in b"123456789":
        stream += word_bits(ch, 8, refin)
    if len(stream) % dw:
        return None
    words = []
    for k in range(0, len(stream), dw):
        chunk = stream[k:k + dw]
        w = 0
        for j, b in enumerate(chunk):
            pos = j if refin else dw - 1 - j
            w |= b << pos
        words.append(w)
    return words


# ------------------------------------------------------------------------------------------ generators
def draw_params(draw, maxw=64):
    if draw(INT(0, 3)) == 0:
        name = PICK(draw, sorted(CATALOG))
        p = {k: CATALOG[name][k] for k in PKEYS}
        return p
    n = draw(st.one_of(INT(1, 9), INT(1, maxw)))
    hi = (1 << n) - 1
    val = st.one_of(st.sampled_from([0, 1, hi, hi >> 1, (hi >> 1) + 1]), INT(0, hi))
    poly = draw(val)
    if draw(INT(0, 3)):
        poly |= 1          # most cases: proper generator polynomial (constant term 1)
    return {"crc_width": n, "polynomial": poly, "initial_crc": draw(val), "reflect_input": draw(BOOL),
            "reflect_output": draw(BOOL), "xor_output": draw(val)}


def draw_dw(draw, n, maxdw=72):
    k = draw(INT(0, 5))
    if k == 0:
        return n
    if k == 1:
        divs = [d for d in range(1, n + 1) if n % d == 0]
        return PICK(draw, divs)
    if k == 2:
        return draw(INT(1, 9))
    if k == 3:
        return min(maxdw, n * draw(INT(1, 3)) + draw(INT(0, 2)))
    return draw(INT(1, maxdw))


@st.composite
def sw_cases(draw):
    p = draw_params(draw)
    dw = draw_dw(draw, p["crc_width"])
    nwords = draw(st.one_of(INT(0, 4), INT(0, 24)))
    hi = (1 << dw) - 1
    words = [draw(st.one_of(st.sampled_from([0, hi, 1, hi >> 1]), INT(0, hi))) for _ in range(nwords)]
    # how the Parameters object is obtained, in which container the words are given, and what was done with the
    # object before (nothing it offers may change what compute returns afterwards)
    return {"p": p, "dw": dw, "words": words, "route": draw(INT(0, 2)), "container": draw(INT(0, 3)),
            "before": [PICK(draw, ["residue", "algorithm", "create", "compute-other", "compute-same", "repr"])
                       for _ in range(draw(INT(0, 2)))]}


def sw_body(ctx, case):
    p, dw, words = case["p"], case["dw"], case["words"]
    route = case.get("route", 0)
    algo = algo_of(p)
    params = Parameters(algo, dw) if route == 0 else algo(dw) if route == 1 else algo(data_width=dw)
    if (params.data_width, params.algorithm.crc_width, params.algorithm.polynomial) != (dw, p["crc_width"], p["polynomial"]):
        raise Mismatch("parameters-object", params=p, data_width=dw, route=route, actual=repr(params))
    exp = williams(p, words, dw)
    for op in case.get("before", []):
        if op == "residue": params.residue()
        elif op == "algorithm": params.algorithm
        elif op == "create": params.create()
        elif op == "repr": repr(params)
        elif op == "compute-same": params.compute(words)
        else: params.compute([0, (1 << dw) - 1])
    cont = case.get("container", 0)
    data = (list(words) if cont == 0 else tuple(words) if cont == 1 else iter(words) if cont == 2 else
            (bytes(words) if dw == 8 else (w for w in words)))
    act = params.compute(data)
    if act != exp:
        raise Mismatch("compute", params=p, data_width=dw, words=words, expected=exp, actual=act, route=route,
                       before=case.get("before", []))
    keys = ["sw:refin%d-refout%d" % (p["reflect_input"], p["reflect_output"])]
    if case.get("before"): keys.append("sw:object-used-before")
    if dw > p["crc_width"]: keys.append("sw:dw>crc")
    if dw < p["crc_width"]: keys.append("sw:dw<crc")
    if p["crc_width"] % dw and dw % p["crc_width"]: keys.append("sw:dw-coprime-ish")
    if not p["polynomial"] & 1: keys.append("sw:even-poly")
    ctx.note(case, len(words) >= 2 and dw != p["crc_width"], *keys)


# ------------------------------------------------------------------------------------------ (c) hardware
@st.composite
def hw_cases(draw, ncyc):
    p = draw_params(draw, maxw=40)
    dw = draw_dw(draw, p["crc_width"], maxdw=40)
    hi = (1 << dw) - 1
    cyc = []
    mode = 0
    for _ in range(ncyc):
        if draw(INT(0, 5)) == 0:
            mode = draw(INT(0, 3))     # 0 random, 1 back-to-back, 2 idle, 3 random with frequent start
        valid = {0: draw(INT(0, 1)), 1: 1, 2: 0, 3: draw(INT(0, 1))}[mode]
        start = 1 if draw(INT(0, 9 if mode != 3 else 2)) == 0 else 0
        # (last element: the domain's reset is asserted over this edge - the register returns to its initial value,
        # as every resettable register does, whatever start / valid say)
        cyc.append([start, valid, draw(st.one_of(st.sampled_from([0, hi]), INT(0, hi))), 1 if draw(INT(0, 24)) == 0 else 0])
    return {"p": p, "dw": dw, "cycles": cyc, "elaborations": 2 if draw(INT(0, 3)) == 0 else 1,
            "prior": [PICK(draw, PRIOR) for _ in range(draw(INT(1, 2)))] if draw(INT(0, 2)) == 0 else []}


PRIOR = ["create", "create-elaborated", "residue", "compute"]


def make_proc(p, dw, elaborations=1, prior=()):
    """`elaborations` > 1: the same Processor object has been elaborated before (as when a design is converted and
    then simulated); the hardware must be the same every time."""
    with warnings.catch_warnings():
        warnings.simplefilter("ignore")
        m = Module()
        cd = ClockDomain("sync")
        m.domains += cd
        # the Parameters object may have served before: another Processor made from it (and elaborated), its residue
        # or a software computation asked for - the Processor made now must not depend on that
        params = Parameters(algo_of(p), dw)
        for op in prior:
            if op == "create": params.create()
            elif op == "create-elaborated": Fragment.get(params.create(), None)
            elif op == "residue": params.residue()
            elif op == "compute": params.compute([0, (1 << dw) - 1])
        m.submodules.crc = proc = params.create()
        for _ in range(elaborations - 1):
            Fragment.get(m, None)
        sim = Simulator(m)
    return sim, cd, proc


def hw_body(ctx, case):
    p, dw, cycles = case["p"], case["dw"], case["cycles"]
    sim, cd, proc = make_proc(p, dw, case.get("elaborations", 1), case.get("prior", ()))
    fail = []
    st_ = dict(restart_after_data=False, idle_gap=False, start_with_valid=False, start_without_valid=False,
               back_to_back=False, reset_after_data=False)

    async def tb(c):
        words = []
        got = c.get(proc.crc)
        if got != williams(p, [], dw):
            fail.append(Mismatch("crc-initial", expected=williams(p, [], dw), actual=got)); return
        prev_valid = 0
        seen_valid_since_start = False
        gap_open = False
        for i, cyc_ in enumerate(cycles):
            start, valid, data = cyc_[:3]
            rst = cyc_[3] if len(cyc_) > 3 else 0
            c.set(proc.start, start); c.set(proc.valid, valid); c.set(proc.data, data)
            if rst: c.set(cd.rst, 1)
            c.set(cd.clk, 1); c.set(cd.clk, 0)
            if rst:
                c.set(cd.rst, 0)
                if words: st_["reset_after_data"] = True
                words = []
                prev_valid = 0
                gap_open = False
                exp = williams(p, words, dw)
                got = c.get(proc.crc)
                if got != exp:
                    fail.append(Mismatch("crc-after-reset", cycle=i, expected=exp, actual=got)); return
                continue
            if start:
                if words: st_["restart_after_data"] = True
                st_["start_with_valid" if valid else "start_without_valid"] = True
                words = []
            if valid:
                if gap_open and words: st_["idle_gap"] = True
                if prev_valid: st_["back_to_back"] = True
                words.append(data)
                gap_open = False
            else:
                gap_open = True
            prev_valid = valid
            exp = williams(p, words, dw)
            got = c.get(proc.crc)
            if got != exp:
                fail.append(Mismatch("crc", cycle=i, inputs=[start, valid, data], words_since_start=list(words),
                                     expected=exp, actual=got)); return
    with warnings.catch_warnings():
        warnings.simplefilter("ignore")
        sim.add_testbench(tb)
        sim.run()
    if fail:
        raise fail[0]
    keys = ["hw:" + k for k, v in st_.items() if v]
    if case.get("elaborations", 1) > 1: keys.append("hw:processor-elaborated-before")
    if case.get("prior"): keys.append("hw:parameters-used-before")
    ctx.note(case, st_["restart_after_data"] and st_["idle_gap"], *keys, evals=len(cycles))


# ------------------------------------------------------------------------------------------ (d) match
@st.composite
def match_cases(draw):
    p = draw_params(draw, maxw=32)
    n = p["crc_width"]
    divs = [d for d in range(1, n + 1) if n % d == 0]
    dw = PICK(draw, divs)
    hi = (1 << dw) - 1
    msg = [draw(INT(0, hi)) for _ in range(draw(INT(0, 6)))]
    gaps = [draw(INT(0, 3)) == 0 for _ in range(len(msg) + n // dw)]
    others = sorted(set(draw(INT(0, (1 << n) - 1)) for _ in range(64))) if n > 8 else list(range(1 << n))
    return {"p": p, "dw": dw, "msg": msg, "gaps": gaps, "others": others,
            "prefix": [draw(INT(0, hi)) for _ in range(draw(INT(0, 2)))],
            "prior": [PICK(draw, PRIOR) for _ in range(draw(INT(1, 2)))] if draw(INT(0, 1)) == 0 else []}


def match_body(ctx, case):
    p, dw, msg = case["p"], case["dw"], case["msg"]
    n = p["crc_width"]
    sim, cd, proc = make_proc(p, dw, 1, case.get("prior", ()))
    own = williams(p, msg, dw)
    odd_poly = bool(p["polynomial"] & 1)
    fail = []
    neg = [0]

    async def feed(c, words, gaps, first_start):
        for k, w in enumerate(words):
            if gaps[k % len(gaps)] if gaps else False:
                c.set(proc.valid, 0); c.set(proc.start, 0)
                c.set(cd.clk, 1); c.set(cd.clk, 0)
            c.set(proc.start, 1 if (first_start and k == 0) else 0)
            c.set(proc.valid, 1); c.set(proc.data, w)
            c.set(cd.clk, 1); c.set(cd.clk, 0)
        c.set(proc.valid, 0); c.set(proc.start, 0)

    async def run_one(c, trailer_value):
        # garbage before the start strobe must not matter
        await feed(c, case["prefix"], [], False)
        words = msg + trailer_words(p, trailer_value, dw)
        if not words:
            return None
        await feed(c, words, case["gaps"], True)
        return c.get(proc.match_detected)

    async def tb(c):
        got = await run_one(c, own)
        if got is not None and got != 1:
            fail.append(Mismatch("match-not-detected", params=p, data_width=dw, message=msg, crc=own,
                                 trailer=trailer_words(p, own, dw))); return
        if odd_poly:
            for t in case["others"]:
                if t == own:
                    continue
                got = await run_one(c, t)
                neg[0] += 1
                if got:
                    fail.append(Mismatch("match-on-wrong-trailer", params=p, data_width=dw, message=msg,
                                         own_crc=own, trailer_value=t)); return
    with warnings.catch_warnings():
        warnings.simplefilter("ignore")
        sim.add_testbench(tb)
        sim.run()
    if fail:
        raise fail[0]
    keys = ["match:positive"]
    if neg[0]: keys.append("match:negative")
    if case.get("prior"): keys.append("match:parameters-used-before")
    if not odd_poly: keys.append("match:even-poly-negative-skipped")
    if p["reflect_input"] != p["reflect_output"]: keys.append("match:refin!=refout")
    if dw < n: keys.append("match:multi-word-trailer")
    if n <= 8 and odd_poly: keys.append("match:all-trailers-exhaustive")
    ctx.note(case, len(msg) >= 1 and dw < n, *keys, evals=1 + neg[0])


def parts(tier):
    q = tier == "quick"
    return [
        Part("catalogue", "enum", cases=catalog_cases, body=catalog_body, exhaustive=True),
        Part("software", "hyp", strategy=sw_cases(), body=sw_body, n=400 if q else 6000),
        Part("hardware", "hyp", strategy=hw_cases(40 if q else 120), body=hw_body, n=30 if q else 400),
        Part("match", "hyp", strategy=match_cases(), body=match_body, n=20 if q else 300),
    ]


REQUIRED = ["cat:entry", "cat:check-repacked", "sw:refin0-refout0", "sw:refin0-refout1", "sw:refin1-refout0",
            "sw:refin1-refout1", "sw:dw>crc", "sw:dw<crc", "sw:even-poly", "sw:object-used-before", "hw:restart_after_data", "hw:idle_gap",
            "hw:start_with_valid", "hw:start_without_valid", "hw:back_to_back", "hw:processor-elaborated-before", "hw:reset_after_data", "match:positive", "match:negative",
            "match:refin!=refout", "match:multi-word-trailer", "match:all-trailers-exhaustive",
            "match:parameters-used-before", "hw:parameters-used-before"]


def coverage_extra(tier, counters, extra):
    return {"catalogue_entries": counters.get("cat:entry", 0), "catalogue_exhaustive": True}
