"""C17 — Clock-domain-crossing primitives meet their latency and pulse contracts."""
import warnings
from hypothesis import strategies as st

from amaranth.hdl import Module, ClockDomain, Signal, Cat, Shape, ResetSignal, Fragment, DomainRenamer
from amaranth.lib.cdc import FFSynchronizer, AsyncFFSynchronizer, ResetSynchronizer, PulseSynchronizer
from amaranth.sim import Simulator

from vlib.runner import Part, Mismatch, HarnessError
from vlib.gen_expr import INT, BOOL, PICK
from vlib import simorder

PID = "C17"
LEVEL = "exploration"
RULE = ("The harness owns every clock (ctx.set on the clock signals; coincident edges through one ctx.set on "
        "Cat(clocks)), so every interleaving is a generated event list. ff: FFSynchronizer with width 0..8 "
        "(signed/unsigned), stages 2..5, explicit/default init, input signal with its own non-zero init, reset_less "
        "on/off, pos/neg-edge output domain with or without a reset, output of the same shape or a wider / signed one, the "
        "objects elaborated once or twice before simulation; events = input change, output-clock rising / "
        "falling edge, edge of an unrelated domain, coincident edges, domain reset change; oracle = shift register of "
        "`stages` entries preloaded with init (output = value the input had at the stages-th previous active edge). "
        "async: AsyncFFSynchronizer / ResetSynchronizer, stages 2..5, both async edges; events = input level change "
        "at arbitrary points, clock edges, unrelated edges; oracle = output asserted from power-on and in the same "
        "event in which the input asserts, released exactly `stages` active edges after the input is released. pulse: "
        "PulseSynchronizer stages 2..4 with independent (or identical) domains; events {I-edge, O-edge, both} with "
        "i in {0,1}; the precondition (an output edge strictly after a pulse and not after the next one; a coincident "
        "output edge samples the state before the coincident pulse) holds by construction; oracle = number of output "
        "cycles with o high equals the number of input pulses after a drain of stages+2 output edges, never ahead. "
        "Non-trivial: schedules with coincident edges, >=2 input-side events between two output edges and the "
        "converse, and an output that changed. Distinct by canonical hash of the case.")
ASSUMPTIONS = [
    "Inputs and resets change only between clock events, never in the same instant as an edge.",
    "Output domains of the asynchronous synchronisers are rising-edge (the library requires it).",
    "FFSynchronizer output domains have a synchronous reset, an asynchronous one (resettable flops then load their "
    "initial value as soon as it rises, reset-less ones are untouched) or none.",
    "Where the FFSynchronizer output is given a different shape from the input it is one that holds every value of "
    "the input, and the delayed value is compared numerically (the documentation only describes equal widths).",
    "Elaborating the same synchroniser object a second time (conversion followed by simulation) yields the same hardware.",
]
QUICK_SHARDS = 4
THOROUGH_SHARDS = 16


def wrap(v, w, s):
    if w == 0:
        return 0
    v &= (1 << w) - 1
    if s and v >> (w - 1):
        v -= 1 << w
    return v


def draw_val(draw, w, s):
    if w == 0:
        return 0
    return wrap(draw(st.one_of(st.sampled_from([0, 1, (1 << w) - 1, 1 << (w - 1)]), INT(0, (1 << w) - 1))), w, s)


def tick_events(draw, n, clocks, extra):
    """Event list: ['clk', {name: level}] toggles a subset of clocks in one instant; extra() yields other events."""
    evs = []
    level = {c: 0 for c in clocks}
    mode = 0
    for _ in range(n):
        if draw(INT(0, 6)) == 0:
            mode = draw(INT(0, len(clocks) + 1))
        r = draw(INT(0, 9))
        if r <= 2:
            evs.append(extra(draw))
            continue
        if mode == 0:
            subset = [c for c in clocks if draw(BOOL)] or [PICK(draw, clocks)]
        elif mode <= len(clocks):
            subset = [clocks[mode - 1]]          # burst of one clock
        else:
            subset = list(clocks)                 # coincident
        for c in subset:
            level[c] ^= 1
        evs.append(["clk", {c: level[c] for c in subset}])
    return evs


def set_clocks(c, cds, levels):
    names = sorted(levels)
    if len(names) == 1:
        c.set(cds[names[0]].clk, levels[names[0]])
    else:
        v = 0
        for i, n in enumerate(names):
            v |= levels[n] << i
        c.set(Cat(*[cds[n].clk for n in names]), v)


# ------------------------------------------------------------------------------------------ FFSynchronizer
@st.composite
def ff_cases(draw, nev):
    s = draw(BOOL)
    w = draw(INT(1, 8)) if s else draw(st.one_of(INT(0, 2), INT(0, 8)))
    stages = draw(INT(2, 5))
    cfg = {"w": w, "s": s, "stages": stages,
           "init": draw_val(draw, w, s) if draw(BOOL) else None,
           "i_init": draw_val(draw, w, s) if draw(BOOL) else 0,
           "reset_less": draw(BOOL), "edge": "neg" if draw(INT(0, 3)) == 0 else "pos",
           "domain_reset_less": draw(INT(0, 3)) == 0, "o_domain": PICK(draw, ["sync", "out"]),
           "elaborations": 2 if draw(INT(0, 4)) == 0 else 1, "async_domain": draw(BOOL)}
    # an output that can hold every value of the input (wider, or signed and wider for an unsigned input)
    cfg["o_shape"] = [w, s]
    if draw(INT(0, 3)) == 0:
        cfg["o_shape"] = [w + draw(INT(1, 3)), s or draw(BOOL)]

    def extra(d):
        if d(INT(0, 1 if cfg["async_domain"] else 4)) == 0:
            return ["rst", d(INT(0, 1))]
        return ["in", draw_val(d, w, s)]
    cfg["events"] = tick_events(draw, nev, ["o", "x"], extra)
    return cfg


def ff_body(ctx, case):
    w, s, stages = case["w"], case["s"], case["stages"]
    with warnings.catch_warnings():
        warnings.simplefilter("ignore")
        m = Module()
        on = case["o_domain"]
        ocd = ClockDomain(on, clk_edge=case["edge"], reset_less=case["domain_reset_less"],
                          async_reset=bool(case.get("async_domain")) and not case["domain_reset_less"])
        xcd = ClockDomain("other")
        m.domains += [ocd, xcd]
        i = Signal(Shape(w, s), init=case["i_init"], name="i")
        ow, os_ = case.get("o_shape", [w, s])
        o = Signal(Shape(ow, os_), name="o")
        kw = {}
        if case["init"] is not None:
            kw["init"] = case["init"]
        m.submodules.dut = FFSynchronizer(i, o, o_domain=on, stages=stages, reset_less=case["reset_less"], **kw)
        dummy = Signal(4)
        m.d.other += dummy.eq(dummy + 1)
        for _ in range(case.get("elaborations", 1) - 1):
            Fragment.get(m, None)             # the same objects have been elaborated before
        sim = Simulator(m)
    init = case["init"] if case["init"] is not None else 0
    chain = [init] * stages           # chain[0] = first flop
    cds = {"o": ocd, "x": xcd}
    active = 1 if case["edge"] == "pos" else 0
    fail = []
    st_ = dict(coincident=False, o_changed=False, in_burst=False, o_burst=False, reset_edge=False, unrelated=False,
               async_reset_rise=False)

    async def tb(c):
        cur_in = case["i_init"]
        rst = 0
        since_o = 0
        o_run = 0
        got = c.get(o)
        if got != init:
            fail.append(Mismatch("ff-initial-output", expected=init, actual=got)); return
        for n, ev in enumerate(case["events"]):
            before = chain[-1]
            if ev[0] == "in":
                cur_in = ev[1]
                c.set(i, cur_in)
                since_o += 1; o_run = 0
                if since_o >= 2: st_["in_burst"] = True
            elif ev[0] == "rst":
                if ocd.rst is not None:
                    old_rst, rst = rst, ev[1]
                    c.set(ocd.rst, rst)
                    if ocd.async_reset and rst and not old_rst:
                        st_["async_reset_rise"] = True
                        if not case["reset_less"]:
                            chain[:] = [init] * stages      # resettable flops load their initial value at once
                        # (reset-less flops, the default, are not touched - and nothing is clocked by the reset)
            else:
                lv = ev[1]
                if len(lv) > 1: st_["coincident"] = True
                set_clocks(c, cds, lv)
                if "x" in lv and "o" not in lv: st_["unrelated"] = True
                if "o" in lv and lv["o"] == active:
                    # active edge: shift (values sampled before the edge)
                    new = [cur_in] + chain[:-1]
                    if rst and not case["reset_less"]:
                        new = [init] * stages
                        st_["reset_edge"] = True
                    chain[:] = new
                    since_o = 0; o_run += 1
                    if o_run >= 2: st_["o_burst"] = True
            got = c.get(o)
            if got != chain[-1]:
                fail.append(Mismatch("ff-output", step=n, event=ev, expected=chain[-1], actual=got,
                                     config={k: v for k, v in case.items() if k != "events"})); return
            if chain[-1] != before: st_["o_changed"] = True
    with warnings.catch_warnings():
        warnings.simplefilter("ignore")
        sim.add_testbench(tb)
        sim.run()
    if fail:
        raise fail[0]
    keys = ["ff:" + k for k, v in st_.items() if v] + [f"ff:stages{stages}", "ff:edge-" + case["edge"]]
    if case["init"] is None and case["i_init"]: keys.append("ff:default-init-with-nonzero-input-init")
    if not case["reset_less"] and not case["domain_reset_less"]: keys.append("ff:resettable")
    if w == 0: keys.append("ff:width0")
    if case.get("o_shape", [w, s]) != [w, s]:
        keys.append("ff:output-wider-than-input")
        if s and (min([case["i_init"], init] + [e[1] for e in case["events"] if e[0] == "in"]) < 0):
            keys.append("ff:negative-value-into-wider-output")
    if case.get("elaborations", 1) > 1: keys.append("ff:elaborated-before")
    ctx.note(case, st_["coincident"] and st_["o_changed"] and (st_["in_burst"] or st_["o_burst"]), *keys,
             evals=len(case["events"]))


# ------------------------------------------------------------------------------------------ AsyncFFSynchronizer / ResetSynchronizer
@st.composite
def async_cases(draw, nev):
    cfg = {"kind": PICK(draw, ["AsyncFFSynchronizer", "AsyncFFSynchronizer", "ResetSynchronizer"]),
           "stages": draw(INT(2, 5)), "async_edge": PICK(draw, ["pos", "neg"]), "o_domain": PICK(draw, ["sync", "out"]),
           "i_init": draw(INT(0, 1)), "elaborations": 2 if draw(INT(0, 2)) == 0 else 1,
           # another synchroniser of the same kind in the design (each has a private clock domain of the same name)
           "decoy": PICK(draw, [None, None, "before", "after"])}
    if cfg["kind"] == "ResetSynchronizer":
        cfg["async_edge"] = "pos"

    def extra(d):
        return ["in", d(INT(0, 1))]
    cfg["events"] = tick_events(draw, nev, ["o", "x"], extra)
    return cfg


def async_body(ctx, case):
    stages = case["stages"]
    with warnings.catch_warnings():
        warnings.simplefilter("ignore")
        m = Module()
        on = case["o_domain"]
        ocd = ClockDomain(on, reset_less=case["kind"] != "ResetSynchronizer")
        xcd = ClockDomain("other")
        m.domains += [ocd, xcd]
        i = Signal(1, init=case["i_init"], name="i")
        di, do = Signal(1, name="decoy_i"), Signal(1, name="decoy_o")
        if case.get("decoy") == "before":
            m.submodules.decoy = AsyncFFSynchronizer(di, do, o_domain="other", stages=2)
        if case["kind"] == "AsyncFFSynchronizer":
            o = Signal(1, name="o")
            m.submodules.dut = AsyncFFSynchronizer(i, o, o_domain=on, stages=stages, async_edge=case["async_edge"])
        else:
            o = ocd.rst
            m.submodules.dut = ResetSynchronizer(i, domain=on, stages=stages)
        if case.get("decoy") == "after":
            m.submodules.decoy = AsyncFFSynchronizer(di, do, o_domain="other", stages=2)
        dummy = Signal(4)
        m.d.other += dummy.eq(dummy + 1)
        for _ in range(case.get("elaborations", 1) - 1):
            Fragment.get(m, None)
        sim = Simulator(m)
    cds = {"o": ocd, "x": xcd}
    asserted_level = 1 if case["async_edge"] == "pos" else 0
    fail = []
    st_ = dict(coincident=False, released=False, reasserted_mid_release=False, assert_between_edges=False)

    async def tb(c):
        cur = case["i_init"]
        remaining = stages if cur != asserted_level else None   # None = input asserted; else edges left until release
        # power-on: the stages hold 1
        expect = 1
        got = c.get(o)
        if got != 1:
            fail.append(Mismatch("async-initial-output", expected=1, actual=got)); return
        for n, ev in enumerate(case["events"]):
            if ev[0] == "in":
                if ev[1] != cur:
                    cur = ev[1]
                    if cur == asserted_level:
                        if remaining is not None and 0 < remaining < stages: st_["reasserted_mid_release"] = True
                        if remaining == 0: st_["assert_between_edges"] = True
                        remaining = None
                    else:
                        remaining = stages
                c.set(i, cur)
            else:
                lv = ev[1]
                if len(lv) > 1: st_["coincident"] = True
                set_clocks(c, cds, lv)
                if lv.get("o") == 1 and remaining is not None and remaining > 0:
                    remaining -= 1
                    if remaining == 0: st_["released"] = True
            expect = 0 if remaining == 0 else 1
            got = c.get(o)
            if got != expect:
                fail.append(Mismatch("async-output", step=n, event=ev, expected=expect, actual=got,
                                     edges_until_release=remaining,
                                     config={k: v for k, v in case.items() if k != "events"})); return
    with warnings.catch_warnings():
        warnings.simplefilter("ignore")
        sim.add_testbench(tb)
        sim.run()
    if fail:
        raise fail[0]
    keys = ["async:" + k for k, v in st_.items() if v] + ["async:" + case["kind"], f"async:stages{stages}",
                                                         "async:edge-" + case["async_edge"]]
    if case.get("elaborations", 1) > 1: keys.append("async:elaborated-before-edge-" + case["async_edge"])
    if case.get("decoy"): keys.append("async:second-synchroniser-" + case["decoy"])
    ctx.note(case, st_["released"] and st_["coincident"], *keys, evals=len(case["events"]))


# ------------------------------------------------------------------------------------------ PulseSynchronizer
@st.composite
def pulse_cases(draw, nev):
    same = draw(INT(0, 7)) == 0
    stages = draw(INT(2, 4))
    evs = []
    pending = False
    mode = 0
    for _ in range(nev):
        if draw(INT(0, 5)) == 0:
            mode = draw(INT(0, 3))
        kind = "B" if same else {0: PICK(draw, ["I", "O", "B"]), 1: "I", 2: "O", 3: "B"}[mode]
        if mode in (1, 2) and draw(INT(0, 4)) == 0 and not same:
            kind = PICK(draw, ["I", "O", "B"])
        want = draw(INT(0, 2)) > 0
        if kind == "I":
            i = 1 if (want and not pending) else 0
            if i: pending = True
        elif kind == "O":
            i = 1 if draw(BOOL) else 0        # level of i is irrelevant at an O-only edge
            pending = False
        else:
            i = 1 if want else 0
            pending = bool(i)                  # the coincident O-edge sampled the older pulse, not this one
        evs.append([kind, i])
    return {"stages": stages, "same": same, "events": evs, "elaborations": 2 if draw(INT(0, 4)) == 0 else 1,
            "merged_by_renamer": same and draw(BOOL)}


def pulse_body(ctx, case):
    stages = case["stages"]
    with warnings.catch_warnings():
        warnings.simplefilter("ignore")
        m = Module()
        if case["same"]:
            icd = ocd = ClockDomain("sync", reset_less=True)
            m.domains += icd
            if case.get("merged_by_renamer"):
                # built for two domains, both renamed onto one
                dut = DomainRenamer({"w": "sync", "r": "sync"})(PulseSynchronizer("w", "r", stages=stages))
            else:
                dut = PulseSynchronizer("sync", "sync", stages=stages)
        else:
            icd, ocd = ClockDomain("inp", reset_less=True), ClockDomain("outp", reset_less=True)
            m.domains += [icd, ocd]
            dut = PulseSynchronizer("inp", "outp", stages=stages)
        m.submodules.dut = dut
        for _ in range(case.get("elaborations", 1) - 1):
            Fragment.get(m, None)
        sim = Simulator(m)
    fail = []
    st_ = dict(coincident=False, i_burst=False, o_burst=False, back_to_back=False)
    cnt = {"in": 0, "out": 0}

    async def edge(c, kind):
        if case["same"] or kind == "I":
            c.set(icd.clk, 1); c.set(icd.clk, 0)
        elif kind == "O":
            c.set(ocd.clk, 1); c.set(ocd.clk, 0)
        else:
            both = Cat(icd.clk, ocd.clk)
            c.set(both, 3); c.set(both, 0)

    async def tb(c):
        irun = orun = 0
        last_pulse_step = None
        if c.get(dut.o) != 0:
            fail.append(Mismatch("pulse-output-high-at-start")); return
        for n, (kind, i) in enumerate(case["events"]):
            if case["same"] and kind != "B":
                raise HarnessError("same-domain schedules consist of coincident edges only")
            c.set(dut.i, i)
            await edge(c, kind)
            if kind in ("I", "B") and i:
                cnt["in"] += 1
                if last_pulse_step is not None and n - last_pulse_step <= 2: st_["back_to_back"] = True
                last_pulse_step = n
            if kind == "B": st_["coincident"] = True
            if kind == "I":
                irun += 1; orun = 0
                if irun >= 2: st_["i_burst"] = True
            elif kind == "O":
                orun += 1; irun = 0
                if orun >= 2: st_["o_burst"] = True
            if kind in ("O", "B"):
                # o is a function of output-domain registers only: the value now is what the next output edge samples
                cnt["out"] += c.get(dut.o)
                # a pulse that arrived at this very instant cannot be out yet
                seen_in = cnt["in"] - (1 if (kind == "B" and i) else 0)
                if cnt["out"] > seen_in:
                    fail.append(Mismatch("pulse-output-ahead-of-input", step=n, inputs=cnt["in"], outputs=cnt["out"],
                                         stages=stages, events=case["events"][:n + 1])); return
        c.set(dut.i, 0)
        for _ in range(stages + 2):
            await edge(c, "O")
            cnt["out"] += c.get(dut.o)
        if cnt["out"] != cnt["in"]:
            fail.append(Mismatch("pulse-count", input_pulses=cnt["in"], output_pulses=cnt["out"], stages=stages,
                                 same_domain=case["same"], events=case["events"])); return
        if c.get(dut.o) != 0:
            fail.append(Mismatch("pulse-output-stuck-high")); return
    with warnings.catch_warnings():
        warnings.simplefilter("ignore")
        sim.add_testbench(tb)
        sim.run()
    if fail:
        raise fail[0]
    keys = ["pulse:" + k for k, v in st_.items() if v] + [f"pulse:stages{stages}"]
    if case["same"]: keys.append("pulse:same-domain")
    if case.get("merged_by_renamer"): keys.append("pulse:two-domains-renamed-onto-one")
    if cnt["in"] >= 2: keys.append("pulse:several-pulses")
    ctx.note(case, st_["coincident"] and st_["i_burst"] and st_["o_burst"] and cnt["in"] >= 2, *keys,
             evals=len(case["events"]))


def parts(tier):
    q = tier == "quick"
    simorder.install()          # a fixed order of ready processes, so that a failure reproduces
    n = 60 if q else 200
    return [
        Part("ff", "hyp", strategy=ff_cases(n), body=ff_body, n=80 if q else 1500),
        Part("async", "hyp", strategy=async_cases(n), body=async_body, n=80 if q else 1500),
        Part("pulse", "hyp", strategy=pulse_cases(n), body=pulse_body, n=80 if q else 1500),
    ]


REQUIRED = ["ff:coincident", "ff:o_changed", "ff:in_burst", "ff:o_burst", "ff:reset_edge", "ff:unrelated",
            "ff:edge-neg", "ff:stages5", "ff:default-init-with-nonzero-input-init", "ff:width0",
            "async:coincident", "async:released", "async:reasserted_mid_release", "async:ResetSynchronizer",
            "async:AsyncFFSynchronizer", "async:edge-neg", "async:stages5", "async:assert_between_edges",
            "pulse:coincident", "pulse:i_burst", "pulse:o_burst", "pulse:back_to_back", "pulse:same-domain",
            "pulse:several-pulses", "pulse:stages4", "ff:output-wider-than-input", "ff:negative-value-into-wider-output",
            "ff:elaborated-before", "async:elaborated-before-edge-neg", "async:elaborated-before-edge-pos",
            "ff:async_reset_rise", "async:second-synchroniser-before", "async:second-synchroniser-after", "pulse:two-domains-renamed-onto-one"]
