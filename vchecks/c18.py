"""C18 — I/O buffers apply direction, inversion and registering exactly per bit."""
import warnings
from hypothesis import strategies as st

from amaranth.hdl import Module, ClockDomain, Signal, Cat, Fragment, IOPort, Value, ResetInserter, EnableInserter
from amaranth.back import rtlil
from amaranth.hdl._ir import build_netlist, DriverConflict
from amaranth.hdl import _nir as nir
from amaranth.lib import io
from amaranth.sim import Simulator

from vlib.reuse import elaborated_before
from vlib.runner import Part, Mismatch, HarnessError
from vlib.gen_expr import INT, BOOL, PICK
from vlib import rtlil_read as RR, rtlil_check as RC, rtlil_eval as RE

PID = "C18"
LEVEL = "exploration"
RULE = ("Hypothesis generates base ports (width 0..6, any per-bit inversion tuple, directions i/o/io) and port "
        "expressions built from integer indices (incl. negative), slices (start/stop/step, negative), `+` and `~` (<=5 "
        "operations, every base bit used at most once), then buffers of every direction on them. Oracle: a bit map "
        "computed on the descriptor: each bit of the composed port = (base port, bit, inverted?), direction = meet of "
        "the operands' directions (Input meets Output => ValueError), buffer/port direction compatibility table. sim: "
        "Buffer on SimulationPorts: after every generated change of o / oe / pad inputs: pad o == o XOR mask, every pad "
        "oe bit == oe, i == pad i XOR mask (input buffers), i == o while enabled and pad i XOR mask while disabled "
        "(bidirectional buffers), untouched base bits stay at their defaults. ff: FFBuffer with independent i/o domains: "
        "same relations exactly one active edge later in the named domain, nothing at edges of the other domain "
        "(harness-owned clocks, coincident edges). real: SingleEndedPort / DifferentialPort on IOPorts: composed "
        "port's io bits, invert tuple and direction == bit map; the netlist has exactly one IOBuffer cell per used pad "
        "bit with the right direction, a second buffer on an overlapping bit raises DriverConflict (also when both "
        "buffers are created at the same source line, and when one port expression names a pad bit twice), and the cells' o/i nets evaluated on the netlist equal o XOR "
        "mask at the pad (complemented on the n pad) and pad XOR mask at i. Non-trivial: a mixed inversion mask and "
        ">=2 port operations. Distinct by canonical hash of the case.")
ASSUMPTIONS = [
    "Each base port bit is used at most once per composed port.",
    "Inputs change only between clock events.",
    "Netlist evaluation for the real-port part supports the cell kinds Buffer.elaborate produces (top, ^, ~, iob); another kind is a harness error (exit 2).",
]
QUICK_SHARDS = 4
THOROUGH_SHARDS = 16
DIRS = ["i", "o", "io"]


def meet(a, b):
    if a == b: return a
    if a == "io": return b
    if b == "io": return a
    return None        # ValueError


# ------------------------------------------------------------------------------------------ port expressions
def draw_bases(draw, n, real=False):
    bases = []
    for _ in range(n):
        w = draw(st.one_of(INT(0, 2), INT(0, 6)))
        k = draw(INT(0, 3))
        inv = [False] * w if k == 0 else [True] * w if k == 1 else [draw(BOOL) for _ in range(w)]
        bases.append({"w": w, "inv": inv, "dir": PICK(draw, DIRS), "inv_form": k})
    return bases


def draw_expr(draw, bases, free, ops, reuse=False):
    """free: list of base indices not yet used (with reuse: a base may appear several times). Returns expression
    descriptor."""
    k = draw(INT(0, 5)) if ops > 0 and free else 0
    if k <= 1 or len(free) < 1:
        b = free[draw(INT(0, len(free) - 1))]
        if not reuse:
            free.remove(b)
        return ["base", b]
    if k == 2:
        return ["inv", draw_expr(draw, bases, free, ops - 1, reuse)]
    if k == 3 and (len(free) >= 2 or reuse):
        a = draw_expr(draw, bases, free, ops - 1, reuse)
        if not free:
            return a
        return ["add", a, draw_expr(draw, bases, free, ops - 1, reuse)]
    e = draw_expr(draw, bases, free, ops - 1, reuse)
    if draw(BOOL):
        return ["idx", e, draw(INT(-7, 6))]
    sl = [draw(st.one_of(st.none(), INT(-7, 7))), draw(st.one_of(st.none(), INT(-7, 7))),
          draw(st.one_of(st.none(), st.sampled_from([1, 1, 2, 3, -1, -2])))]
    return ["slice", e, sl]


def bitmap(e, bases):
    """(list of (base, bit, inverted), direction) or raises IndexError / ValueError like the port algebra must."""
    k = e[0]
    if k == "base":
        b = bases[e[1]]
        return [(e[1], i, b["inv"][i]) for i in range(b["w"])], b["dir"]
    if k == "inv":
        bits, d = bitmap(e[1], bases)
        return [(b, i, not v) for b, i, v in bits], d
    if k == "add":
        b1, d1 = bitmap(e[1], bases)
        b2, d2 = bitmap(e[2], bases)
        d = meet(d1, d2)
        if d is None:
            raise ValueError("input meets output")
        return b1 + b2, d
    if k == "idx":
        bits, d = bitmap(e[1], bases)
        return [bits[e[2]]], d            # IndexError if out of range
    if k == "slice":
        bits, d = bitmap(e[1], bases)
        start, stop, step = slice(*e[2]).indices(len(bits))
        if step > 0 and start > stop:
            raise Unjudged()       # Python slicing gives an empty port; Value slicing documents an IndexError
        return bits[slice(*e[2])], d
    raise HarnessError(e)


class Unjudged(Exception):
    pass


def nops(e):
    return 0 if e[0] == "base" else 1 + sum(nops(x) for x in e[1:] if isinstance(x, list) and x and isinstance(x[0], str))


def build_expr(e, ports):
    k = e[0]
    if k == "base": return ports[e[1]]
    if k == "inv": return ~build_expr(e[1], ports)
    if k == "add": return build_expr(e[1], ports) + build_expr(e[2], ports)
    if k == "idx": return build_expr(e[1], ports)[e[2]]
    if k == "slice": return build_expr(e[1], ports)[slice(*e[2])]
    raise HarnessError(e)


def inv_arg(b):
    if b["inv_form"] == 0: return False
    if b["inv_form"] == 1: return True
    return tuple(b["inv"]) if b["inv_form"] == 2 else list(b["inv"])


def expect_build(e, bases):
    """'ok' | 'ValueError' | 'IndexError' for building the expression."""
    try:
        bitmap(e, bases)
        return "ok"
    except Unjudged:
        return "unjudged"
    except ValueError:
        return "ValueError"
    except IndexError:
        return "IndexError"


def try_build(e, ports, bases):
    exp = expect_build(e, bases)
    if exp == "unjudged":
        return None
    try:
        p = build_expr(e, ports)
    except ValueError:
        got, p = "ValueError", None
    except IndexError:
        got, p = "IndexError", None
    else:
        got = "ok"
    if got != exp:
        # an expression can fail in several ways at once (e.g. bad index inside an i+o concatenation): only judge
        # expressions whose model outcome is unambiguous
        if exp == "ok" or got == "ok":
            raise Mismatch("port-expression-outcome", expr=e, expected=exp, actual=got)
    return p if got == "ok" and exp == "ok" else None


def check_algebra(p, e, bases, what):
    bits, d = bitmap(e, bases)
    if len(p) != len(bits):
        raise Mismatch("port-length", what=what, expr=e, expected=len(bits), actual=len(p))
    if p.direction != io.Direction(d):
        raise Mismatch("port-direction", what=what, expr=e, expected=d, actual=str(p.direction))
    if tuple(p.invert) != tuple(v for _, _, v in bits):
        raise Mismatch("port-invert", what=what, expr=e, expected=[v for _, _, v in bits], actual=list(p.invert))
    return bits, d


def buffer_allowed(port_dir, buf_dir):
    return not ((port_dir == "i" and buf_dir != "i") or (port_dir == "o" and buf_dir != "o"))


@st.composite
def sim_cases(draw, ff=False):
    bases = draw_bases(draw, draw(INT(1, 3)))
    free = list(range(len(bases)))
    e = draw_expr(draw, bases, free, draw(INT(0, 5)))
    buf_dir = PICK(draw, DIRS)
    n = draw(INT(4, 14))
    evs = []
    for _ in range(n):
        r = draw(INT(0, 9 if ff else 6))
        if r <= 1: evs.append(["o", draw(INT(0, 63))])
        elif r == 2: evs.append(["oe", draw(INT(0, 1))])
        elif r <= 5: evs.append(["pad", draw(INT(0, len(bases) - 1)), draw(INT(0, 63))])
        else: evs.append(["clk", PICK(draw, ["i", "o", "io", "x"])])
    return {"bases": bases, "expr": e, "buf": buf_dir, "events": evs,
            "domains": [PICK(draw, ["sync", "a"]), PICK(draw, ["sync", "b"])]}


def make_sim_ports(bases):
    return [io.SimulationPort(b["dir"], b["w"], invert=inv_arg(b), name=f"p{i}") for i, b in enumerate(bases)]


def sim_body(ctx, case, ff=False):
    bases, e, bd = case["bases"], case["expr"], case["buf"]
    with warnings.catch_warnings():
        warnings.simplefilter("ignore")
        ports = make_sim_ports(bases)
        for b, p in zip(bases, ports):
            if tuple(p.invert) != tuple(b["inv"]) or len(p) != b["w"]:
                raise Mismatch("base-port-attributes", base=b, invert=list(p.invert), length=len(p))
        p = try_build(e, ports, bases)
        if p is None:
            ctx.note(case, False, "sim:expression-rejected"); return
        bits, pd = check_algebra(p, e, bases, "SimulationPort")
        allowed = buffer_allowed(pd, bd)
        idom, odom = case["domains"]
        try:
            if ff:
                kw = {}
                if bd != "o": kw["i_domain"] = idom
                if bd != "i": kw["o_domain"] = odom
                buf = io.FFBuffer(bd, p, **kw)
            else:
                buf = io.Buffer(bd, p)
        except ValueError:
            if allowed:
                raise Mismatch("buffer-refused", port_direction=pd, buffer_direction=bd)
            ctx.note(case, False, "sim:buffer-direction-refused"); return
        if not allowed:
            raise Mismatch("buffer-accepted-on-incompatible-port", port_direction=pd, buffer_direction=bd)
        m = Module()
        cds = {}
        for dn in sorted({idom, odom, "x"}):
            cds[dn] = ClockDomain(dn)
            m.domains += cds[dn]
        m.submodules.buf = buf
        dummy = Signal(3)
        m.d.x += dummy.eq(dummy + 1)
        if elaborated_before(case, m):
            ctx.tally("reuse:design-elaborated-before")
        sim = Simulator(m)
    w = len(bits)
    mask = sum(1 << j for j, (_, _, v) in enumerate(bits) if v)
    full = (1 << w) - 1
    fail = []
    st_ = dict(o_nonzero=False, oe_toggled=False, pad_in=False, coincident=False, edges=0)

    async def tb(c):
        o = 0
        oe = 1 if bd == "o" else 0       # documented default of the buffer's oe member
        pad = [0] * len(bases)
        # model registers of the FF variant
        o_ff = oe_ff = 0
        i_ff = 0

        def pad_i_bits():
            x = 0
            for j, (b, k, _) in enumerate(bits):
                x |= ((pad[b] >> k) & 1) << j
            return x

        def comb_in(o_eff, oe_eff):
            """What the (unregistered) buffer presents on i."""
            if bd == "i":
                return pad_i_bits() ^ mask
            return o_eff if oe_eff else pad_i_bits() ^ mask      # bidirectional: loop-back while enabled

        def check(step, ev):
            o_eff, oe_eff = (o_ff, oe_ff) if ff else (o, oe)
            if bd != "i":
                drive = (o_eff ^ mask) & full
                for j, (b, k, _) in enumerate(bits):
                    got_o = (c.get(ports[b].o) >> k) & 1
                    got_oe = (c.get(ports[b].oe) >> k) & 1
                    if got_o != (drive >> j) & 1:
                        return Mismatch("pad-output", step=step, event=ev, bit=j, base=[b, k], o=o_eff, mask=mask,
                                        expected=(drive >> j) & 1, actual=got_o)
                    if got_oe != oe_eff:
                        return Mismatch("pad-output-enable", step=step, event=ev, bit=j, base=[b, k], expected=oe_eff,
                                        actual=got_oe)
                # base bits that are not part of the composed port keep their defaults
                used = {(b, k) for b, k, _ in bits}
                for b, base in enumerate(bases):
                    if base["dir"] == "i":
                        continue
                    for k in range(base["w"]):
                        if (b, k) not in used:
                            d_oe = 1 if base["dir"] == "o" else 0
                            if (c.get(ports[b].o) >> k) & 1 != 0 or (c.get(ports[b].oe) >> k) & 1 != d_oe:
                                return Mismatch("unused-pad-bit-changed", base=[b, k])
            if bd != "o":
                exp = i_ff if ff else comb_in(o, oe)
                got = c.get(buf.i)
                if got != exp:
                    return Mismatch("buffer-input", step=step, event=ev, expected=exp, actual=got, mask=mask,
                                    pads=list(pad), o=o, oe=oe)
            return None

        mm = check(-1, "initial")
        if mm: fail.append(mm); return
        for n, ev in enumerate(case["events"]):
            if ev[0] == "o" and bd != "i":
                o = ev[1] & full
                c.set(buf.o, o)
                if o: st_["o_nonzero"] = True
            elif ev[0] == "oe" and bd != "i":
                oe = ev[1]
                c.set(buf.oe, oe)
                st_["oe_toggled"] = True
            elif ev[0] == "pad":
                b = ev[1]
                if bases[b]["dir"] != "o":
                    pad[b] = ev[2] & ((1 << bases[b]["w"]) - 1)
                    c.set(ports[b].i, pad[b])
                    st_["pad_in"] = True
            elif ev[0] == "clk" and ff:
                which = {"i": [idom], "o": [odom], "io": sorted({idom, odom}), "x": ["x"]}[ev[1]]
                if len(which) > 1: st_["coincident"] = True
                sigs = Cat(*[cds[d].clk for d in which])
                # pre-edge values
                new_i = comb_in(o_ff, oe_ff) if (idom in which and bd != "o") else None
                new_o = (o, oe) if (odom in which and bd != "i") else None
                c.set(sigs, (1 << len(which)) - 1)
                if new_i is not None: i_ff = new_i
                if new_o is not None: o_ff, oe_ff = new_o
                st_["edges"] += 1
                mm = check(n, ev + ["rise"])
                if mm: fail.append(mm); return
                c.set(sigs, 0)
            mm = check(n, ev)
            if mm: fail.append(mm); return
    with warnings.catch_warnings():
        warnings.simplefilter("ignore")
        sim.add_testbench(tb)
        sim.run()
    if fail:
        raise fail[0]
    tag = "ff" if ff else "sim"
    keys = [f"{tag}:buf-{bd}", f"{tag}:port-{pd}"]
    mixed = 0 < mask < full
    if mixed: keys.append(f"{tag}:mixed-mask")
    if nops(e) >= 2: keys.append(f"{tag}:ops>=2")
    if w == 0: keys.append(f"{tag}:width0")
    if st_["coincident"]: keys.append("ff:coincident-edges")
    if any(x[0] == "idx" and x[2] < 0 for x in walk(e)): keys.append(f"{tag}:negative-index")
    if any(x[0] == "slice" and (x[2][2] or 1) != 1 for x in walk(e)): keys.append(f"{tag}:stepped-slice")
    ctx.note(case, mixed and nops(e) >= 2, *keys, evals=len(case["events"]))


def walk(e):
    yield e
    for x in e[1:]:
        if isinstance(x, list) and x and isinstance(x[0], str):
            yield from walk(x)


def ff_body(ctx, case):
    sim_body(ctx, case, ff=True)


# ------------------------------------------------------------------------------------------ real ports / netlists
@st.composite
def real_cases(draw):
    kind = PICK(draw, ["single", "diff"])
    bases = draw_bases(draw, draw(INT(1, 3)))
    for b in bases:
        if b["w"] == 0 and draw(BOOL):
            b["w"] = 1; b["inv"] = [draw(BOOL)]; b["inv_form"] = 2
    free = list(range(len(bases)))
    # with reuse, one port expression may name the same pad bit twice (port[0:2] + port[1:3]): to be refused
    e = draw_expr(draw, bases, free, draw(INT(0, 4)), reuse=draw(INT(0, 3)) == 0)
    if draw(INT(0, 7)) == 0:
        # directly: two pieces of one port that share a bit, joined with +
        b = draw(INT(0, len(bases) - 1))
        if bases[b]["w"] >= 1:
            w = bases[b]["w"]
            m_ = draw(INT(0, w - 1))
            e = ["add", ["slice", ["base", b], [None, m_ + 1, None]], ["slice", ["base", b], [m_, None, None]]]
            if draw(BOOL):
                e = ["add", ["base", b], ["inv", ["base", b]]]
    if len(bases) >= 2 and draw(INT(0, 7)) == 0:
        # a zero-width operand of another direction: the width and mask stay, the direction still has to be met
        a_, b_ = 0, 1
        bases[b_]["w"] = 0; bases[b_]["inv"] = []; bases[b_]["inv_form"] = 2
        bases[b_]["dir"] = PICK(draw, [d_ for d_ in DIRS if d_ != bases[a_]["dir"]])
        e = ["add", ["base", a_], ["base", b_]] if draw(BOOL) else ["add", ["base", b_], ["base", a_]]
    second = None
    if draw(INT(0, 2)) == 0:
        second = [draw(INT(0, len(bases) - 1)), draw(BOOL), PICK(draw, DIRS)]
    return {"kind": kind, "bases": bases, "expr": e, "buf": PICK(draw, DIRS), "second": second,
            "o": draw(INT(0, 2 ** 12 - 1)), "oe": draw(INT(0, 1)), "pads": draw(INT(0, 2 ** 18 - 1)),
            "ff": draw(INT(0, 3)) == 0, "wrap": PICK(draw, [None, None, "R", "E"])}


def eval_net(nl, net, env, memo):
    if net.is_const:
        return net.const
    key = int(net)
    if key in memo:
        return memo[key]
    cell = nl.cells[net.cell]
    bit = net.bit
    if isinstance(cell, nir.Top):
        v = env["top"][(net.cell, bit)]
    elif isinstance(cell, nir.Operator):
        ins = [[eval_net(nl, n, env, memo) for n in inp] for inp in cell.inputs]
        if cell.operator == "^": v = ins[0][bit] ^ ins[1][bit]
        elif cell.operator == "~": v = 1 - ins[0][bit]
        elif cell.operator == "&": v = ins[0][bit] & ins[1][bit]
        elif cell.operator == "|": v = ins[0][bit] | ins[1][bit]
        else:
            raise HarnessError(f"netlist evaluator: unsupported operator {cell.operator!r}")
    elif isinstance(cell, nir.IOBuffer):
        v = env["pad"][cell.port[bit]]
    else:
        raise HarnessError(f"netlist evaluator: unsupported cell {type(cell).__name__}")
    memo[key] = v
    return v


def real_body(ctx, case):
    bases, e, bd = case["bases"], case["expr"], case["buf"]
    with warnings.catch_warnings():
        warnings.simplefilter("ignore")
        iops = [IOPort(b["w"], name=f"pad{i}") for i, b in enumerate(bases)]
        ions = [IOPort(b["w"], name=f"padn{i}") for i, b in enumerate(bases)]
        if case["kind"] == "single":
            ports = [io.SingleEndedPort(iops[i], invert=inv_arg(b), direction=b["dir"]) for i, b in enumerate(bases)]
        else:
            ports = [io.DifferentialPort(iops[i], ions[i], invert=inv_arg(b), direction=b["dir"]) for i, b in enumerate(bases)]
        p = try_build(e, ports, bases)
        if p is None:
            ctx.note(case, False, "real:expression-rejected"); return
        bits, pd = check_algebra(p, e, bases, type(ports[0]).__name__)
        allowed = buffer_allowed(pd, bd)
        try:
            buf = (io.FFBuffer if case["ff"] else io.Buffer)(bd, p)
        except ValueError:
            if allowed:
                raise Mismatch("buffer-refused", port_direction=pd, buffer_direction=bd)
            ctx.note(case, False, "real:buffer-direction-refused"); return
        if not allowed:
            raise Mismatch("buffer-accepted-on-incompatible-port", port_direction=pd, buffer_direction=bd)
        m = Module()
        m.domains.sync = ClockDomain()
        ctl = Signal(name="ctl")
        wrap = case.get("wrap") if not case["ff"] else None
        # a control inserter around a combinational buffer changes nothing (it has no state), the buffer included
        m.submodules.buf = (ResetInserter(ctl)(buf) if wrap == "R" else EnableInserter(ctl)(buf) if wrap == "E" else buf)
        top_ports = [ctl] if wrap else []
        if bd != "i": top_ports += [buf.o, buf.oe]
        if bd != "o": top_ports += [buf.i]
        overlap = self_overlap = len({(b, k) for b, k, _ in bits}) < len(bits)
        if case["second"] is not None:
            b2, whole, d2 = case["second"]
            if bases[b2]["w"] > 0 and buffer_allowed(bases[b2]["dir"], d2):
                sp = ports[b2] if whole else ports[b2][0]
                used2 = {(b2, k) for k in (range(bases[b2]["w"]) if whole else [0])}
                overlap = overlap or bool(used2 & {(b, k) for b, k, _ in bits})
                # created through a helper so that both IOBufferInstances may share one source line
                m.submodules.buf2 = buf2 = io.Buffer(d2, sp)
                if d2 != "i": top_ports += [buf2.o, buf2.oe]
                if d2 != "o": top_ports += [buf2.i]
            else:
                case = dict(case, second=None)
        try:
            nl = build_netlist(Fragment.get(m, None), top_ports)
        except DriverConflict:
            if overlap:
                ctx.note(case, True, "real:overlap-rejected", *(["real:overlap-within-one-expression-rejected"]
                                                                 if self_overlap else [])); return
            raise Mismatch("netlist-refused-disjoint-buffers", expr=e)
        if overlap:
            raise Mismatch("overlapping-buffers-accepted", expr=e, second=case["second"], within_one_expression=self_overlap)
        # one IOBuffer cell per used pad bit
        name_of = {id(pt): nm for pt, nm in zip(iops, [("p", i) for i in range(len(iops))])}
        name_of.update({id(pt): nm for pt, nm in zip(ions, [("n", i) for i in range(len(ions))])})
        uses = {}
        cells = [(idx, cell) for idx, cell in enumerate(nl.cells) if isinstance(cell, nir.IOBuffer)]
        for idx, cell in cells:
            for j, ionet in enumerate(cell.port):
                key = name_of[id(nl.io_ports[ionet.port])] + (ionet.bit,)
                uses.setdefault(key, []).append((idx, j, cell))
        expect_keys = set()
        for b, k, _ in bits:
            expect_keys.add(("p", b, k))
            if case["kind"] == "diff" and bd != "i":
                expect_keys.add(("n", b, k))
        if case["second"] is not None:
            b2, whole, d2 = case["second"]
            for k in (range(bases[b2]["w"]) if whole else [0]):
                expect_keys.add(("p", b2, k))
                if case["kind"] == "diff" and d2 != "i":
                    expect_keys.add(("n", b2, k))
        if set(uses) != expect_keys or any(len(v) != 1 for v in uses.values()):
            raise Mismatch("iobuffer-cells", expected=sorted(map(list, expect_keys)),
                           actual={str(k): len(v) for k, v in uses.items()})
        # evaluate (combinational buffers only): pad = o ^ mask when enabled, n pad complemented, i = pad ^ mask
        if not case["ff"] and case["second"] is None and bits:
            w = len(bits)
            o, oe = case["o"] & ((1 << w) - 1), case["oe"]
            env = {"top": {}, "pad": {}}
            top = nl.cells[0]
            for name, (start, width_) in top.ports_i.items():
                val = {"o": o, "oe": oe}.get(name, 0)
                for k in range(width_):
                    env["top"][(0, start + k)] = (val >> k) & 1
            padbits = case["pads"]
            for j, (b, k, v) in enumerate(bits):
                ionet = uses[("p", b, k)][0][2].port[uses[("p", b, k)][0][1]]
                env["pad"][ionet] = (padbits >> j) & 1
            memo = {}
            for j, (b, k, inv) in enumerate(bits):
                idx, pos, cell = uses[("p", b, k)][0]
                want_dir = {"i": nir.IODirection.Input, "o": nir.IODirection.Output, "io": nir.IODirection.Bidir}[bd]
                if cell.dir != want_dir:
                    raise Mismatch("iobuffer-direction", bit=j, expected=bd, actual=str(cell.dir))
                if bd != "i":
                    drv = eval_net(nl, cell.o[pos], env, memo)
                    en = eval_net(nl, cell.oe, env, memo)
                    if drv != ((o >> j) & 1) ^ int(inv) or en != oe:
                        raise Mismatch("pad-drive", bit=j, o=o, inverted=inv, expected=((o >> j) & 1) ^ int(inv), actual=drv,
                                       oe=[oe, en])
                    if case["kind"] == "diff":
                        nidx, npos, ncell = uses[("n", b, k)][0]
                        ndrv = eval_net(nl, ncell.o[npos], env, memo)
                        if ndrv != 1 - drv or eval_net(nl, ncell.oe, env, memo) != oe:
                            raise Mismatch("n-pad-drive", bit=j, expected=1 - drv, actual=ndrv)
                if bd != "o":
                    # the buffer's i output bit j
                    start, width_ = None, None
                    for name, val in top.ports_o.items():
                        if name == "i":
                            got = eval_net(nl, val[j], env, memo)
                            exp = ((padbits >> j) & 1) ^ int(inv)
                            if got != exp:
                                raise Mismatch("fabric-input", bit=j, pad=(padbits >> j) & 1, inverted=inv, expected=exp, actual=got)
            ctx.tally("real:netlist-evaluated")
            if wrap: ctx.tally("real:buffer-under-control-inserter")
            # ---- the same through the emitted RTLIL: which pad bits the buffer is attached to
            text = rtlil.convert(m, ports=top_ports)
            try:
                design = RR.parse(text)
            except (RR.RTLILSyntaxError, RR.UnknownWire, RR.SliceOutOfBounds) as e_:
                raise Mismatch("rtlil-does-not-parse", error=str(e_)[:300], expr=e)
            probs = RC.check(design, partly_used_pads={"\\" + pt.name for pt in iops + ions})
            if probs:
                raise Mismatch("rtlil-not-well-formed", problems=probs[:4], expr=e)
            # the top-level direction of a pad follows the buffers on it, however few of its bits they cover
            topm = [m_ for m_ in design.modules.values() if "\\top" in m_.attrs][0]
            want_kind = {"i": "input", "o": "output", "io": "inout"}[bd]
            for b_ in sorted({b_ for b_, _, _ in bits}):
                wire = topm.wires.get("\\" + f"pad{b_}")
                if wire is None or wire.port_kind != want_kind:
                    raise Mismatch("rtlil-pad-direction", expr=e, pad=b_, expected=want_kind,
                                   actual=None if wire is None else wire.port_kind, used_bits=sorted(k_ for bb, k_, _ in bits if bb == b_))
                if len({k_ for bb, k_, _ in bits if bb == b_}) < wire.width: ctx.tally("real:partly-used-pad-direction-checked")
            ev = RE.Evaluator(design)
            pname = lambda b_: "\\" + (f"pad{b_}")
            if bd == "i":
                vals = {}
                for j, (b_, k_, inv) in enumerate(bits):
                    vals[pname(b_)] = vals.get(pname(b_), 0) | (((padbits >> j) & 1) << k_)
                ev.set_inputs(vals)
                got, gx = ev.get(("\\i",))
                exp = 0
                for j, (b_, k_, inv) in enumerate(bits):
                    exp |= (((padbits >> j) & 1) ^ int(inv)) << j
                if gx or got != exp:
                    raise Mismatch("rtlil-fabric-input", expr=e, expected=exp, actual=got, undefined=gx)
            elif oe:
                ev.set_inputs({"\\o": o, "\\oe": 1})
                for j, (b_, k_, inv) in enumerate(bits):
                    pv, px = ev.get((pname(b_),))
                    want = ((o >> j) & 1) ^ int(inv)
                    if (px >> k_) & 1 or (pv >> k_) & 1 != want:
                        raise Mismatch("rtlil-pad-drive", expr=e, bit=j, pad=[b_, k_], expected=want, actual=(pv >> k_) & 1,
                                       undefined=(px >> k_) & 1)
            ctx.tally("real:rtlil-evaluated")
    keys = ["real:" + case["kind"], "real:buf-" + bd]
    mask_mixed = len({v for _, _, v in bits}) == 2
    if mask_mixed: keys.append("real:mixed-mask")
    if nops(e) >= 2: keys.append("real:ops>=2")
    if case["second"] is not None: keys.append("real:two-disjoint-buffers")
    ctx.note(case, mask_mixed and nops(e) >= 2, *keys, evals=1)


def parts(tier):
    q = tier == "quick"
    return [
        Part("sim", "hyp", strategy=sim_cases(), body=sim_body, n=200 if q else 2500),
        Part("ff", "hyp", strategy=sim_cases(ff=True), body=ff_body, n=150 if q else 2500),
        Part("real", "hyp", strategy=real_cases(), body=real_body, n=200 if q else 2500),
    ]


REQUIRED = ["sim:buf-i", "sim:buf-o", "sim:buf-io", "sim:port-io", "sim:mixed-mask", "sim:ops>=2", "sim:width0",
            "sim:negative-index", "sim:stepped-slice", "sim:buffer-direction-refused", "sim:expression-rejected",
            "ff:buf-i", "ff:buf-o", "ff:buf-io", "ff:mixed-mask", "ff:coincident-edges",
            "real:single", "real:diff", "real:buf-io", "real:mixed-mask", "real:ops>=2", "real:overlap-rejected", "real:overlap-within-one-expression-rejected",
            "real:two-disjoint-buffers", "real:netlist-evaluated", "real:rtlil-evaluated", "real:buffer-under-control-inserter", "real:partly-used-pad-direction-checked"]
