"""C19 — Resource requests map pins one-to-one and constraints name the right pin."""
import re, warnings
from hypothesis import strategies as st

from amaranth.hdl import Module, Signal, Elaboratable, Period, ClockDomain, IOPort
from amaranth.build import Resource, Subsignal, Pins, PinsN, DiffPairs, DiffPairsN, Attrs, Clock, Connector
from amaranth.build.res import ResourceManager, ResourceError, PortGroup, PortMetadata
from amaranth.lib import io
from amaranth.vendor import SiliconBluePlatform, LatticePlatform, GowinPlatform

from vlib.runner import Part, Mismatch, HarnessError
from vlib.gen_expr import INT, BOOL, PICK
from vlib import rtlil_read as RR

PID = "C19"
LEVEL = "exploration"
RULE = ("Hypothesis generates platform descriptions: 2..7 resources (name, number; Pins / PinsN / DiffPairs / "
        "DiffPairsN, one or two levels of Subsignals, Attrs, Clock) whose pin names come from a pool of 10 so that "
        "overlaps are common, 0..3 connectors (dict and string forms, '-' gaps, chained through conn=) and "
        "connector-relative pins, then request histories (<=12 calls: repeats, unknown resources, legal and illegal "
        "dir overrides, xdr). histories: model-based check (dict pin->owner, set of granted resources, pins resolved "
        "through the connector chain by the model): every call must raise ResourceError iff the model says so; after "
        "a refusal the later decisions must match a model whose allocation did not change; every granted port has one "
        "bit per declared pin in declared order (metadata name == resolved pin), the declared inversion and "
        "direction, and subsignal structure. constraints: the same descriptions on SiliconBluePlatform (IceStorm "
        ".pcf), LatticePlatform (Trellis .lpf) and GowinPlatform (Apicula .cst) with a design that requests ports "
        "with dir='-' and puts io.Buffers on a subset; the rendered constraint file is parsed: every buffered port bit "
        "maps to exactly its declared pin exactly once, no other pin is assigned to it, every requested clock gets "
        "exactly one frequency line equal to its declared period (relative 1e-9). Non-trivial: a history with a "
        "refused request followed by a request touching some of the same pins; a connector chain of length >=2; a "
        "differential or subsignal resource. Distinct by canonical hash of the case.")
ASSUMPTIONS = [
    "Connector-relative pins always name existing connector pins (a dangling reference is a NameError, outside this property).",
    "Illegal dir overrides raise TypeError/ValueError before anything is allocated, an unsupported data rate (xdr > 2 with a "
    "pin-style request) raises ValueError after the pins were looked up; neither may change the allocation.",
]
QUICK_SHARDS = 4
THOROUGH_SHARDS = 16

POOL = ["A1", "A2", "A3", "B1", "B2", "B3", "C1", "C2", "D7", "E9"]
RNAMES = ["led", "btn", "bus", "clk", "spi"]


# ------------------------------------------------------------------------------------------ descriptions
def draw_connectors(draw):
    conns = []
    for i in range(draw(INT(0, 3))):
        parent = None
        if conns and draw(BOOL):
            parent = draw(INT(0, len(conns) - 1))
        n = draw(INT(1, 4))
        if parent is None:
            targets = [PICK(draw, POOL) for _ in range(n)]
        else:
            plabels = list(conns[parent]["map"])
            targets = [PICK(draw, plabels) for _ in range(n)]
        if draw(BOOL):
            # string form: position = label, '-' = gap
            seq = []
            mp = {}
            for t in targets:
                if draw(INT(0, 3)) == 0:
                    seq.append("-")
                seq.append(t)
                mp[str(len(seq))] = t
            conns.append({"name": "cn", "number": i, "form": "str", "seq": seq, "map": mp, "parent": parent})
        else:
            labels = ["p%d" % j if draw(BOOL) else str(j + 1) for j in range(n)]
            conns.append({"name": "cn", "number": i, "form": "dict", "map": dict(zip(labels, targets)), "parent": parent})
    return conns


def draw_pins(draw, conns):
    n = draw(INT(1, 3))
    diff = draw(INT(0, 3)) == 0
    inv = draw(INT(0, 2)) == 0
    d = PICK(draw, ["i", "o", "io", "oe"])
    conn = None
    if conns and draw(INT(0, 2)) == 0:
        conn = draw(INT(0, len(conns) - 1))
        labels = list(conns[conn]["map"])
        names = [PICK(draw, labels) for _ in range(n)]
        nn = [PICK(draw, labels) for _ in range(n)]
    else:
        names = [PICK(draw, POOL) for _ in range(n)]
        nn = [PICK(draw, POOL) for _ in range(n)]
    out = {"names": names, "dir": d, "invert": inv, "conn": conn}
    if diff:
        out["n"] = nn
    return out


def draw_sub(draw, conns, depth, name):
    if depth > 0 and draw(INT(0, 2)) == 0:
        k = draw(INT(1, 3))
        return {"name": name, "subs": [draw_sub(draw, conns, depth - 1, f"s{j}") for j in range(k)],
                "attrs": {"IO_STANDARD": "LVCMOS33"} if draw(INT(0, 3)) == 0 else {}}
    r = {"name": name, "pins": draw_pins(draw, conns), "attrs": {"DRIVE": draw(INT(1, 4))} if draw(INT(0, 3)) == 0 else {}}
    if draw(INT(0, 3)) == 0:
        r["clock_hz"] = PICK(draw, [12_000_000, 27_500_000, 1_500_000, 100_000_000, 48_000, 333_333, 24_000_000, 6_000_000])
    return r


@st.composite
def descriptions(draw, nreq=12):
    conns = draw_connectors(draw)
    res = []
    seen = set()
    for _ in range(draw(INT(2, 7))):
        key = (PICK(draw, RNAMES), draw(INT(0, 2)))
        if key in seen:
            continue
        seen.add(key)
        r = draw_sub(draw, conns, 2, key[0])
        r["number"] = key[1]
        res.append(r)
    reqs = []
    for _ in range(draw(INT(1, nreq))):
        k = draw(INT(0, 9))
        if k == 0:
            reqs.append({"name": "nothere", "number": 0, "dir": "-"})
            continue
        r = PICK(draw, res)
        q = {"name": r["name"], "number": r["number"]}
        m = draw(INT(0, 5))
        q["dir"] = "-" if m <= 3 else None if m == 4 else PICK(draw, ["i", "o", "oe", "io", "bogus"])
        if draw(INT(0, 5)) == 0 and q["dir"] != "-":
            q["xdr"] = draw(INT(0, 4))      # gearing ratios above 2 are refused (ValueError) once the pins are known
        reqs.append(q)
    return {"connectors": conns, "resources": res, "requests": reqs, "earlier_board": bool(conns) and draw(INT(0, 2)) == 0}


# ------------------------------------------------------------------------------------------ model
def resolve_pin(conns, conn, label, hops=None):
    """Physical pin for `label` of connector index conn (following the chain)."""
    c = conns[conn]
    t = c["map"][label]
    if hops is not None:
        hops.append(conn)
    if c["parent"] is not None:
        return resolve_pin(conns, c["parent"], t, hops)
    return t


def leaf_pins(desc, leaf):
    p = leaf["pins"]
    def res(names):
        out = []
        for nm in names:
            if p["conn"] is None:
                out.append(nm)
            else:
                out.append(resolve_pin(desc["connectors"], p["conn"], nm))
        return out
    ps = res(p["names"])
    ns = res(p["n"]) if "n" in p else []
    return ps, ns


def leaves(r, path=()):
    if "subs" in r:
        out = []
        for s in r["subs"]:
            out += leaves(s, path + (s["name"],))
        return out
    return [(path, r)]


def chain_len(desc, leaf):
    p = leaf["pins"]
    if p["conn"] is None:
        return 0
    hops = []
    resolve_pin(desc["connectors"], p["conn"], p["names"][0], hops)
    return len(hops)


# ------------------------------------------------------------------------------------------ builders
def build_connectors(desc):
    out = []
    for c in desc["connectors"]:
        kw = {}
        if c["parent"] is not None:
            pc = desc["connectors"][c["parent"]]
            kw["conn"] = (pc["name"], pc["number"])
        if c["form"] == "str":
            out.append(Connector(c["name"], c["number"], " ".join(c["seq"]), **kw))
        else:
            out.append(Connector(c["name"], c["number"], dict(c["map"]), **kw))
    return out


def build_io(desc, r):
    args = []
    if "subs" in r:
        for s in r["subs"]:
            args.append(Subsignal(s["name"], *build_io(desc, s)))
    else:
        p = r["pins"]
        kw = {"dir": p["dir"]}
        if p["conn"] is not None:
            c = desc["connectors"][p["conn"]]
            kw["conn"] = (c["name"], c["number"])
        if "n" in p:
            F = DiffPairsN if p["invert"] else DiffPairs
            args.append(F(" ".join(p["names"]), " ".join(p["n"]), **kw))
        else:
            F = PinsN if p["invert"] else Pins
            args.append(F(" ".join(p["names"]), **kw))
        if "clock_hz" in r:
            args.append(Clock(Period(Hz=r["clock_hz"])))
    if r.get("attrs"):
        args.append(Attrs(**r["attrs"]))
    return args


def build_resources(desc):
    return [Resource(r["name"], r["number"], *build_io(desc, r)) for r in desc["resources"]]


def check_port(desc, leaf, path, port, rname):
    p = leaf["pins"]
    ps, ns = leaf_pins(desc, leaf)
    want_dir = {"i": io.Direction.Input, "o": io.Direction.Output, "oe": io.Direction.Output, "io": io.Direction.Bidir}[p["dir"]]
    if "n" in p:
        if not isinstance(port, io.DifferentialPort):
            raise Mismatch("port-class", resource=rname, path=list(path), actual=type(port).__name__)
        got_p = [m.name for m in port.p.metadata]
        got_n = [m.name for m in port.n.metadata]
        if got_p != ps or got_n != ns:
            raise Mismatch("port-pins", resource=rname, path=list(path), expected=[ps, ns], actual=[got_p, got_n])
    else:
        if not isinstance(port, io.SingleEndedPort):
            raise Mismatch("port-class", resource=rname, path=list(path), actual=type(port).__name__)
        got = [m.name for m in port.io.metadata]
        if got != ps:
            raise Mismatch("port-pins", resource=rname, path=list(path), expected=ps, actual=got)
    if len(port) != len(ps):
        raise Mismatch("port-width", resource=rname, path=list(path), expected=len(ps), actual=len(port))
    if tuple(port.invert) != (p["invert"],) * len(ps):
        raise Mismatch("port-invert", resource=rname, path=list(path), expected=p["invert"], actual=list(port.invert))
    if port.direction != want_dir:
        raise Mismatch("port-direction", resource=rname, path=list(path), expected=p["dir"], actual=str(port.direction))


def find_res(desc, name, number):
    for r in desc["resources"]:
        if r["name"] == name and r["number"] == number:
            return r
    return None


def dir_ok(leaf_dir, want):
    """Is a (scalar) dir override legal for a leaf declared with leaf_dir?"""
    if want is None or want == "-":
        return True
    if want not in ("i", "o", "oe", "io"):
        return False
    return want == leaf_dir or leaf_dir == "io"


def history_body(ctx, case):
    desc = case
    with warnings.catch_warnings():
        warnings.simplefilter("ignore")
        resources = build_resources(desc)
        if case.get("earlier_board"):
            # the same Resource objects were used before with another board revision's connector table (same labels,
            # other physical pins): nothing of that may show in what this manager hands out
            alt = {"connectors": [dict(c, map={k: (POOL[(POOL.index(v) + 3) % len(POOL)] if v in POOL else v)
                                               for k, v in c["map"].items()},
                                       seq=[(POOL[(POOL.index(v) + 3) % len(POOL)] if v in POOL else v) for v in c.get("seq", [])])
                                  for c in desc["connectors"]]}
            rm0 = ResourceManager(resources, build_connectors(alt))
            for r in desc["resources"]:
                try:
                    rm0.request(r["name"], r["number"], dir="-")
                except Exception:
                    pass
        rm = ResourceManager(resources, build_connectors(desc))
    owner = {}            # physical pin -> (resource key)
    granted = set()
    stats = dict(refused_then_touch=False, granted=0, refused_pin=0, refused_twice=0, unknown=0, bad_dir=0, refused_late=0)
    refused_pins = set()
    for step, q in enumerate(case["requests"]):
        r = find_res(desc, q["name"], q["number"])
        key = (q["name"], q["number"])
        # model decision
        if r is None:
            expect = "ResourceError"; stats["unknown"] += 1
        elif key in granted:
            expect = "ResourceError"; stats["refused_twice"] += 1
        else:
            lv = leaves(r)
            has_subs = "subs" in r
            d = q["dir"]
            if has_subs and d not in (None, "-"):
                expect = "TypeError"      # a scalar direction for a resource with subsignals
            elif not has_subs and not dir_ok(r["pins"]["dir"], d):
                expect = "TypeError/ValueError"
            elif has_subs and "xdr" in q:
                expect = "TypeError"
            else:
                pins = []
                for path, leaf in lv:
                    ps, ns = leaf_pins(desc, leaf)
                    pins += ps + ns
                clash = [p for p in pins if p in owner] or [p for i, p in enumerate(pins) if p in pins[:i]]
                if clash:
                    expect = "ResourceError"; stats["refused_pin"] += 1
                    refused_pins |= set(pins)
                elif q.get("xdr", 0) > 2:
                    expect = "ValueError"; stats["refused_late"] += 1
                    refused_pins |= set(pins)
                else:
                    expect = "ok"
                    if refused_pins & set(pins):
                        stats["refused_then_touch"] = True
            if expect not in ("ok", "ResourceError", "ValueError"):
                stats["bad_dir"] += 1
        # implementation
        kw = {}
        if q["dir"] is not None:
            kw["dir"] = q["dir"]
        if "xdr" in q:
            kw["xdr"] = q["xdr"]
        try:
            with warnings.catch_warnings():
                warnings.simplefilter("ignore")
                val = rm.request(q["name"], q["number"], **kw)
            got = "ok"
        except ResourceError as e:
            got, msg = "ResourceError", str(e)
        except (TypeError, ValueError) as e:
            got, msg = "TypeError/ValueError", str(e)
        exp_norm = "TypeError/ValueError" if expect.startswith(("TypeError", "ValueError")) else expect
        if got != exp_norm:
            raise Mismatch("request-decision", step=step, request=q, expected=expect, actual=got,
                           detail=(msg if got != "ok" else None), granted=sorted(map(list, granted)),
                           pins_in_use=sorted(owner))
        if got == "ok":
            granted.add(key)
            stats["granted"] += 1
            for path, leaf in leaves(r):
                ps, ns = leaf_pins(desc, leaf)
                for p in ps + ns:
                    owner[p] = key
            if q["dir"] == "-":
                # structure of the returned value
                for path, leaf in leaves(r):
                    obj = val
                    for nm in path:
                        if not isinstance(obj, PortGroup) or not hasattr(obj, nm):
                            raise Mismatch("port-group-structure", resource=list(key), path=list(path))
                        obj = getattr(obj, nm)
                    check_port(desc, leaf, path, obj, list(key))
    keys = []
    if stats["granted"]: keys.append("hist:granted")
    if stats["refused_pin"]: keys.append("hist:refused-pin-conflict")
    if stats["refused_twice"]: keys.append("hist:refused-repeat")
    if stats["unknown"]: keys.append("hist:unknown-resource")
    if stats["bad_dir"]: keys.append("hist:illegal-override")
    if stats["refused_late"]: keys.append("hist:refused-unsupported-data-rate")
    if case.get("earlier_board") and any(chain_len(desc, lf) >= 1 for r in desc["resources"] for _, lf in leaves(r)):
        keys.append("hist:resources-used-before-with-other-connectors")
    if stats["refused_then_touch"]: keys.append("hist:refused-then-granted-on-same-pins")
    lvs = [lf for r in desc["resources"] for _, lf in leaves(r)]
    if any(chain_len(desc, lf) >= 2 for lf in lvs): keys.append("hist:connector-chain>=2")
    if any("n" in lf["pins"] for lf in lvs): keys.append("hist:differential")
    if any("subs" in r for r in desc["resources"]): keys.append("hist:subsignals")
    nontrivial = stats["refused_then_touch"] or "hist:connector-chain>=2" in keys
    ctx.note(case, nontrivial, *keys, evals=len(case["requests"]))


# ------------------------------------------------------------------------------------------ constraint files
VENDORS = {
    "icestorm": (SiliconBluePlatform, {"device": "iCE40HX1K", "package": "TQ144"}, "top.pcf"),
    "trellis": (LatticePlatform, {"device": "LFE5U-25F", "package": "BG381", "speed": "6"}, "top.lpf"),
    "apicula": (GowinPlatform, {"part": "GW1N-LV1QN48C6/I5", "family": "GW1N-1", "osc_frequency": None}, "top.cst"),
}


@st.composite
def plan_cases(draw):
    desc = draw(descriptions(nreq=1))
    picks = []
    for i, r in enumerate(desc["resources"]):
        if draw(INT(0, 3)):
            picks.append([i, draw(INT(0, 2))])     # 0: buffer on every leaf, 1: on the first leaf only, 2: requested but unused
    # a port made by the design itself that carries the name of a requested port (one of the two is renamed in the
    # netlist; the constraint file must follow the renaming): None, or [position among the requests, before/after]
    clash = [draw(INT(0, 5)), draw(BOOL)] if draw(INT(0, 2)) == 0 else None
    return {"desc": desc, "vendor": PICK(draw, sorted(VENDORS)), "use": picks, "clash": clash}


def parse_constraints(vendor, text):
    """-> ({port bit name: [pins]}, {port name: [frequencies in Hz]})"""
    locs, freqs = {}, {}
    for line in text.splitlines():
        line = line.strip()
        if vendor == "icestorm":
            m = re.fullmatch(r"set_io (\S+) (\S+)", line)
            if m: locs.setdefault(m[1], []).append(m[2])
            m = re.fullmatch(r"set_frequency (\S+) (\S+)", line)
            if m: freqs.setdefault(m[1], []).append(float(m[2]) * 1e6)
        elif vendor == "trellis":
            m = re.fullmatch(r'LOCATE COMP "([^"]+)" SITE "([^"]+)";', line)
            if m: locs.setdefault(m[1], []).append(m[2])
            m = re.fullmatch(r'FREQUENCY PORT "([^"]+)" (\S+) HZ;', line)
            if m: freqs.setdefault(m[1], []).append(float(m[2]))
        else:
            m = re.fullmatch(r'IO_LOC "([^"]+)" (\S+);', line)
            if m: locs.setdefault(m[1], []).append(m[2])
    return locs, freqs


def plan_body(ctx, case):
    desc = case["desc"]
    cls, attrs, fname = VENDORS[case["vendor"]]
    # a pin may be used by one requested resource only: request in order, skipping resources the model refuses
    owner = set()
    todo = []
    for i, mode in case["use"]:
        r = desc["resources"][i]
        pins = []
        for path, leaf in leaves(r):
            ps, ns = leaf_pins(desc, leaf)
            pins += ps + ns
        if len(set(pins)) != len(pins) or set(pins) & owner:
            continue
        owner |= set(pins)
        todo.append((r, mode))
    ports_ = []       # requested leaf sides: {"name": derived port name, "pins": [...], "required": buffered and not the n side}
    clocks = {}       # derived port name -> Hz   (requested leaves with a clock)
    clash = case.get("clash")
    clash_done = []

    class Design(Elaboratable):
        def elaborate(self, platform):
            m = Module()
            m.domains.sync = ClockDomain()
            def add_clash(name, width):
                # same name, another width: the two top-level ports can be told apart in the emitted netlist
                upins = [f"U{k}" for k in range(width + 1)]
                up = IOPort(width + 1, name=name, metadata=[PortMetadata(pn, {}) for pn in upins])
                ub = io.Buffer("o", io.SingleEndedPort(up))
                m.submodules += ub
                m.d.comb += [ub.o.eq(1), ub.oe.eq(1)]
                clash_done.append([name, width + 1])
                ports_.append({"name": name, "pins": upins, "required": True})
            for ri, (r, mode) in enumerate(todo):
                val = platform.request(r["name"], r["number"], dir="-")
                for li, (path, leaf) in enumerate(leaves(r)):
                    obj = val
                    for nm in path:
                        obj = getattr(obj, nm)
                    ps, ns = leaf_pins(desc, leaf)
                    base = "__".join((f"{r['name']}_{r['number']}",) + path)
                    buffered = mode == 0 or (mode == 1 and li == 0)
                    sides = [("io", ps)] if "n" not in leaf["pins"] else [("p", ps), ("n", ns)]
                    for suffix, pins in sides:
                        ports_.append({"name": f"{base}__{suffix}", "pins": list(pins), "required": buffered and suffix != "n"})
                    if clash and not clash_done and clash[0] % len(todo) == ri and li == 0 and clash[1]:
                        add_clash(f"{base}__{sides[0][0]}", len(ps))
                    if "clock_hz" in leaf:
                        clocks[f"{base}__{'io' if 'n' not in leaf['pins'] else 'p'}"] = Period(Hz=leaf["clock_hz"]).hertz
                    if buffered:
                        d = {"i": "i", "o": "o", "oe": "o", "io": "io"}[leaf["pins"]["dir"]]
                        if d == "io" and "n" in leaf["pins"]:
                            d = "o"    # some vendors (iCE40) refuse bidirectional differential buffers: not this property's subject
                        buf = io.Buffer(d, obj)
                        m.submodules += buf
                        if d != "i":
                            s = Signal(len(obj), name=f"drv_{base}")
                            m.d.sync += s.eq(s + 1)
                            m.d.comb += [buf.o.eq(s), buf.oe.eq(1)]
                        if d != "o":
                            s = Signal(len(obj), name=f"cap_{base}")
                            m.d.sync += s.eq(buf.i)
                    if clash and not clash_done and clash[0] % len(todo) == ri and li == 0 and not clash[1]:
                        add_clash(f"{base}__{sides[0][0]}", len(ps))
            return m
    with warnings.catch_warnings():
        warnings.simplefilter("ignore")
        P = type("P", (cls,), dict(attrs, resources=build_resources(desc), connectors=build_connectors(desc),
                                   default_clk=None, default_rst=None))
        plan = P().build(Design(), do_build=False)
    if fname not in plan.files:
        raise Mismatch("no-constraint-file", vendor=case["vendor"], files=sorted(plan.files))
    text = plan.files[fname]
    if isinstance(text, bytes):
        text = text.decode()
    locs, freqs = parse_constraints(case["vendor"], text)
    # the top-level ports of the emitted netlist: a name may have been made unique with a `$<n>` suffix
    il = [v for k, v in plan.files.items() if k.endswith(".il")]
    if len(il) != 1:
        raise Mismatch("no-netlist-in-plan", files=sorted(plan.files))
    try:
        design = RR.parse(il[0] if isinstance(il[0], str) else il[0].decode())
    except (RR.RTLILSyntaxError, RR.UnknownWire, RR.SliceOutOfBounds) as e:
        raise Mismatch("plan-netlist-does-not-parse", error=str(e)[:300])
    tops = [m_ for m_ in design.modules.values() if "\\top" in m_.attrs]
    top_ports = {w.name[1:]: w.width for w in tops[0].wires.values() if w.port_kind} if len(tops) == 1 else {}
    stem = lambda n: re.sub(r"\$\d+$", "", n)
    per_wire = {}                      # constrained top-level port -> {bit: [pins]}
    for bit, pins in locs.items():
        mt = re.fullmatch(r"(.*)\[(\d+)\]", bit)
        wire, idx = (mt[1], int(mt[2])) if mt else (bit, 0)
        if wire not in top_ports or idx >= top_ports[wire]:
            raise Mismatch("constraint-for-unknown-port-bit", vendor=case["vendor"], port_bit=bit, pins=pins,
                           top_level_ports=sorted(top_ports)[:12])
        per_wire.setdefault(wire, {})[idx] = pins
    used = [False] * len(ports_)
    for wire, bits in sorted(per_wire.items()):
        pins = [bits.get(k) for k in range(max(bits) + 1)]
        if any(p is None or len(p) != 1 for p in pins):
            raise Mismatch("pin-constraint", vendor=case["vendor"], port=wire, expected="one pin for each bit", actual=pins,
                           file=text[:1500])
        flat = [p[0] for p in pins]
        cands = [k for k, pt in enumerate(ports_) if not used[k] and pt["name"] == stem(wire) and pt["pins"] == flat
                 and len(flat) == top_ports[wire]]
        if not cands:
            raise Mismatch("pin-constraint", vendor=case["vendor"], port=wire, actual=flat,
                           expected=[pt["pins"] for pt in ports_ if pt["name"] == stem(wire)], file=text[:1500])
        used[cands[0]] = True
    for k, pt in enumerate(ports_):
        if pt["required"] and not used[k]:
            raise Mismatch("pin-constraint", vendor=case["vendor"], port=pt["name"], expected=pt["pins"], actual=None,
                           file=text[:1500])
    allpins = [p for ps in locs.values() for p in ps]
    if len(allpins) != len(set(allpins)):
        raise Mismatch("pin-assigned-twice", vendor=case["vendor"], pins=sorted(allpins))
    if case["vendor"] != "apicula":
        seen_clk = {}
        for port, got in freqs.items():
            hz = clocks.get(stem(port))
            if hz is None:
                raise Mismatch("clock-constraint-for-undeclared-clock", vendor=case["vendor"], port=port)
            if len(got) != 1 or abs(got[0] - hz) > 1e-9 * hz:
                raise Mismatch("clock-constraint", vendor=case["vendor"], port=port, expected_hz=hz, actual=got, file=text[:1500])
            seen_clk[stem(port)] = seen_clk.get(stem(port), 0) + 1
        for port, hz in clocks.items():
            if seen_clk.get(port, 0) != 1:
                raise Mismatch("clock-constraint", vendor=case["vendor"], port=port, expected_hz=hz, actual=None, file=text[:1500])
    expected = [pt for pt in ports_ if pt["required"]]
    keys = ["plan:" + case["vendor"]]
    if expected: keys.append("plan:pins-checked")
    if clash_done and any("$" in w for w in top_ports): keys.append("plan:port-renamed-in-netlist")
    if clash_done and any("$" in w for w in per_wire): keys.append("plan:constrained-port-renamed-in-netlist")
    if clocks and case["vendor"] != "apicula": keys.append("plan:clock-checked")
    if any(hz % 1_000_000 for hz in [lf.get("clock_hz", 0) for r, _ in todo for _, lf in leaves(r)] if hz): keys.append("plan:fractional-mhz-clock")
    lvs = [lf for r, _ in todo for _, lf in leaves(r)]
    if any(chain_len(desc, lf) >= 1 for lf in lvs): keys.append("plan:connector-relative")
    if any(chain_len(desc, lf) >= 2 for lf in lvs): keys.append("plan:connector-chain>=2")
    if any("n" in lf["pins"] for lf in lvs): keys.append("plan:differential")
    ctx.note(case, bool(expected) and ("plan:connector-relative" in keys or "plan:differential" in keys), *keys,
             evals=max(len(expected), 1))


def parts(tier):
    q = tier == "quick"
    return [
        Part("histories", "hyp", strategy=descriptions(), body=history_body, n=300 if q else 4000),
        Part("plans", "hyp", strategy=plan_cases(), body=plan_body, n=40 if q else 500),
    ]


REQUIRED = ["hist:granted", "hist:resources-used-before-with-other-connectors", "hist:refused-unsupported-data-rate", "hist:refused-pin-conflict", "hist:refused-repeat", "hist:unknown-resource",
            "hist:illegal-override", "hist:refused-then-granted-on-same-pins", "hist:connector-chain>=2",
            "hist:differential", "hist:subsignals", "plan:icestorm", "plan:trellis", "plan:apicula",
            "plan:pins-checked", "plan:clock-checked", "plan:connector-relative", "plan:differential",
            "plan:fractional-mhz-clock", "plan:port-renamed-in-netlist", "plan:constrained-port-renamed-in-netlist"]
