"""C20 — Print, Assert and Format match Python formatting at the right instants."""
import io, contextlib, warnings
from hypothesis import strategies as st

from amaranth.hdl import Module, ClockDomain, Signal, Shape, Print, Assert, Assume, Format, Const, EnableInserter, Value
from amaranth.sim import Simulator

from vlib.runner import Part, Mismatch, HarnessError
from vlib.gen_expr import INT, BOOL, PICK, ExprGen, value_of_shape
from vlib.gen_prog import ProgGen, stimulus, build_program
from vlib import refsem as R
from vlib import build as B

PID = "C20"
LEVEL = "exploration"
RULE = ("format: Hypothesis draws specs from the accepted grammar [[fill]align][sign][#][0][width][_][type] (fill "
        "incl. non-ASCII and '{'-free punctuation, align < > =, sign + - space, type b o d x X c s or none) and values of "
        "width 0..24 signed/unsigned (for c: valid code points; for s: UTF-8 text, least significant byte "
        "first, NUL bytes as padding after, before or between the characters), several arguments per Format, widths given as nested replacement fields under automatic numbering, literal text with doubled braces, Print with sep/end and "
        "bare values/strings; the captured stdout of the simulation at the clock edge, and the text of the "
        "AssertionError raised through Assert/Assume with a Format or plain-string message, must equal Python's "
        "str.format / print result for the value interpreted in its own shape. reject: specs from the rejected grammar "
        "(^ align, ',' grouping, n, precision, float types, c/s with sign/#/0/=/_, s on a width not divisible by 8, c/s "
        "on signed) must raise at construction. timing: Print / Assert / Assume statements are inserted at random "
        "places of generated control-flow programs (If/Switch/FSM nests) in pos/neg-edge domains with sync/async "
        "reset; the reference statement interpreter says at which edges each is active; output must appear at exactly "
        "those edges (nothing at other events: input changes, the inactive clock edge with further events in the "
        "half-cycle after it, reset changes in either half-cycle); a checker submodule holding only Print / Assert "
        "statements, plain or under EnableInserter with a generated enable expression, must be active exactly at the "
        "edges where its enable is non-zero; the simulation "
        "must stop with AssertionError exactly at the first edge with an active Assert/Assume whose multi-bit condition "
        "is zero. Non-trivial: >=2 spec options combined or a negative / over-wide value; timing cases with an "
        "inactive edge before an active one. Distinct by canonical hash of the case.")
ASSUMPTIONS = [
    "Oracle is CPython's own str.format / format() applied to the exact integer (chr / decoded text for c / s).",
    "s values are valid UTF-8 with zero bytes as padding at any position (the simulator's documented reading: a "
    "string of unknown width whose zero bytes are not characters); c values are below 0x110000.",
    "Output at the very edge where an assertion fires is not compared (which statements run before the stop is unspecified).",
]
QUICK_SHARDS = 4
THOROUGH_SHARDS = 16

FILLS = list(" *0_.#+-xX<>=^~é→")      # no braces: str.format would need nested fields for them


# ------------------------------------------------------------------------------------------ format specs
def draw_spec(draw, typ, signed_val):
    """An accepted spec for presentation type typ ('' = none)."""
    spec = ""
    textual = typ in ("c", "s")
    opts = 0
    if draw(INT(0, 2)) == 0:
        aligns = ["<", ">"] if textual else ["<", ">", "="]
        if draw(BOOL):
            spec += PICK(draw, FILLS)
        spec += PICK(draw, aligns)
        opts += 1
    if not textual:
        if draw(INT(0, 2)) == 0:
            spec += PICK(draw, ["+", "-", " "]); opts += 1
        if draw(INT(0, 2)) == 0:
            spec += "#"; opts += 1
        if draw(INT(0, 3)) == 0:
            spec += "0"; opts += 1
    nested = None
    if draw(BOOL):
        wd = draw(INT(1, 30)); opts += 1
        if draw(INT(0, 3)) == 0:
            nested = [spec + "{}", wd]        # the width given as a nested replacement field: "{:{}d}".format(value, width)
        spec += str(wd)
    if not textual and draw(INT(0, 3)) == 0:
        spec += "_"; opts += 1
        if nested: nested[0] += "_"
    if nested: nested[0] += typ
    return spec + typ, opts, nested


def draw_arg(draw):
    """(shape, value, type char, python-level object to hand to str.format)"""
    typ = PICK(draw, ["", "d", "b", "o", "x", "X", "d", "x", "c", "s"])
    if typ == "c":
        w = draw(INT(1, 21))
        hi = min((1 << w) - 1, 0x10FFFF)
        v = draw(st.one_of(INT(32, min(126, hi)) if hi >= 32 else INT(0, hi), INT(0, hi)))
        return [w, False], v, typ
    if typ == "s":
        nbytes = draw(INT(1, 4))
        text = draw(st.text(st.characters(min_codepoint=1, max_codepoint=0x2FFF, blacklist_categories=("Cs",)),
                            max_size=nbytes).filter(lambda t: len(t.encode()) <= nbytes))
        # zero bytes are padding wherever they are (value_to_string: "string of unknown width"): place the
        # characters at generated positions of the nbytes-wide value, not only at the least significant end
        chars = [ch.encode() for ch in text]
        pad = nbytes - sum(len(c) for c in chars)
        if pad and draw(INT(0, 2)) == 0:
            for _ in range(pad):
                chars.insert(draw(INT(0, len(chars))), b"\0")
        raw = int.from_bytes(b"".join(chars), "little")
        return [8 * nbytes, False], raw, typ
    s = draw(BOOL)
    w = draw(INT(1, 24)) if s else draw(st.one_of(INT(0, 3), INT(0, 24)))
    return [w, s], draw(value_of_shape(w, s)), typ


def py_obj(shape, v, typ):
    if typ == "s":
        nbytes = shape[0] // 8
        return v.to_bytes(nbytes, "little").replace(b"\0", b"").decode()
    return v


def py_format(spec, typ, obj):
    if typ == "s":
        return format(obj, spec[:-1])
    return format(obj, spec)


LITERALS = ["", " ", "x=", "{{", "}}", "{{}}", "a{{b}}c", "→", "%d", "\\", "'", '"', "\n", ", "]


@st.composite
def format_cases(draw):
    n = draw(INT(1, 3))
    args, pieces, npieces = [], [], []
    opts_total = 0
    for i in range(n):
        shape, v, typ = draw_arg(draw)
        spec, opts, nested = draw_spec(draw, typ, shape[1])
        opts_total = max(opts_total, opts)
        more = [draw(value_of_shape(*shape)) if typ not in ("c", "s") else v for _ in range(2)]
        args.append({"shape": shape, "values": [v] + more, "type": typ, "spec": spec, "nested": nested})
        lit = PICK(draw, LITERALS)
        pieces.append(lit); npieces.append(lit)
        plain = "{:" + spec + "}" if spec or draw(BOOL) else "{}"
        pieces.append(plain)
        npieces.append("{:" + nested[0] + "}" if nested else plain)
    lit = PICK(draw, LITERALS)
    pieces.append(lit); npieces.append(lit)
    mode = PICK(draw, ["print-format", "print-format", "print-args", "assert-format", "assume-format", "assert-str"])
    return {"args": args, "fmt": "".join(pieces), "fmt_nested": "".join(npieces), "mode": mode, "opts": opts_total,
            "sep": PICK(draw, [None, "", " ", ", ", "{"]), "end": PICK(draw, [None, "", "\n", "!", "}}"]),
            "strmsg": PICK(draw, ["plain", "got {} instead", "{{x}}", "{", "}", "a{0}b", "{:d}"]),
            # the string arguments of a multi-argument Print: labels, or nothing at all (print("", x) still separates)
            "labels": [PICK(draw, [None, None, "", "", "a b"]) for _ in range(n)]}


def label(case, i):
    lab = (case.get("labels") or [None] * (i + 1))[i]
    return f"<{i}>" if lab is None else lab


def format_body(ctx, case):
    args = case["args"]
    mode = case["mode"]
    with warnings.catch_warnings():
        warnings.simplefilter("ignore")
        m = Module()
        m.domains.sync = cd = ClockDomain()
        sigs = [Signal(Shape(a["shape"][0], a["shape"][1]), name=f"v{i}") for i, a in enumerate(args)]
        go = Signal()
        # automatic numbering with nested replacement fields: each width is the positional argument after its value
        fargs = []
        for i, a in enumerate(args):
            fargs.append(sigs[i])
            if a.get("nested"):
                fargs.append(a["nested"][1])
        ffmt = case.get("fmt_nested", case["fmt"])
        kw = {}
        if case["sep"] is not None: kw["sep"] = case["sep"]
        if case["end"] is not None: kw["end"] = case["end"]
        if mode == "print-format":
            with m.If(go):
                m.d.sync += Print(Format(ffmt, *fargs), **kw)
        elif mode == "print-args":
            # bare values, strings and Format objects as separate print() arguments
            pargs = []
            for i, a in enumerate(args):
                pargs.append(label(case, i))
                pargs.append(sigs[i] if a["type"] in ("", "d") and a["spec"] in ("", "d") else
                             Format("{:" + a["spec"] + "}", sigs[i]))
            with m.If(go):
                m.d.sync += Print(*pargs, **kw)
        elif mode in ("assert-format", "assume-format"):
            K = Assert if mode == "assert-format" else Assume
            m.d.sync += K(~go, Format(ffmt, *fargs))
        else:
            m.d.sync += Assert(~go, case["strmsg"])
        sim = Simulator(m)
    nvals = len(args[0]["values"])
    results = []

    def expected(k):
        objs = [py_obj(a["shape"], a["values"][k], a["type"]) for a in args]
        if mode == "print-args":
            parts = []
            for i, a in enumerate(args):
                parts.append(label(case, i))
                parts.append(py_format(a["spec"], a["type"], objs[i]))
            sep = " " if case["sep"] is None else case["sep"]
            end = "\n" if case["end"] is None else case["end"]
            return sep.join(parts) + end
        # str.format with per-field specs; 's' fields are pre-formatted
        out, i = [], 0
        import string
        for lit, field, spec, conv in string.Formatter().parse(case["fmt"]):
            out.append(lit)
            if field is not None:
                out.append(py_format(spec, args[i]["type"], objs[i]))
                i += 1
        text = "".join(out)
        if mode == "print-format":
            return text + ("\n" if case["end"] is None else case["end"])
        return text

    async def tb(c):
        for k in range(nvals):
            for i, a in enumerate(args):
                c.set(sigs[i], a["values"][k])
            c.set(go, 1)
            buf = io.StringIO()
            err = None
            with contextlib.redirect_stdout(buf):
                try:
                    c.set(cd.clk, 1)
                except AssertionError as e:
                    err = str(e)
            results.append((k, buf.getvalue(), err))
            if err is not None:
                return
            c.set(cd.clk, 0)
            c.set(go, 0)
            buf = io.StringIO()
            with contextlib.redirect_stdout(buf):
                c.set(cd.clk, 1); c.set(cd.clk, 0)
            if buf.getvalue():
                raise Mismatch("print-while-inactive", output=buf.getvalue())
    err_run = None
    with warnings.catch_warnings():
        warnings.simplefilter("ignore")
        sim.add_testbench(tb)
        try:
            sim.run()
        except AssertionError as e:
            err_run = str(e)
    for k, out, err in results:
        exp = expected(k)
        if mode.startswith("print"):
            if out != exp or err is not None:
                raise Mismatch("print-text", fmt=case["fmt"], mode=mode, values=[a["values"][k] for a in args],
                               shapes=[a["shape"] for a in args], expected=exp, actual=out, error=err)
    if not mode.startswith("print"):
        kind = "Assumption" if mode == "assume-format" else "Assertion"
        exp = f"{kind} violated: " + (case["strmsg"] if mode == "assert-str" else expected(0))
        got = err_run if err_run is not None else (results[0][2] if results else None)
        if got != exp:
            raise Mismatch("assertion-text", fmt=case["fmt"] if mode != "assert-str" else case["strmsg"], mode=mode,
                           values=[a["values"][0] for a in args], shapes=[a["shape"] for a in args],
                           expected=exp, actual=got)
    keys = ["fmt:" + mode] + ["fmt:type-" + (a["type"] or "none") for a in args]
    for a in args:
        if a["type"] == "s":
            raw = a["values"][0].to_bytes(a["shape"][0] // 8, "little")
            if b"\0" in raw.rstrip(b"\0"): keys.append("fmt:s-zero-byte-below-a-character")
    if any(a["shape"][1] and min(a["values"]) < 0 for a in args): keys.append("fmt:negative")
    if any(a["shape"][0] == 0 for a in args): keys.append("fmt:width0")
    if any("=" in a["spec"] for a in args): keys.append("fmt:align=")
    if any(a["spec"][:1] and a["spec"][:1] not in "<>=+- #0123456789_bodxXcs" for a in args): keys.append("fmt:fill")
    if "{{" in case["fmt"] or "}}" in case["fmt"]: keys.append("fmt:literal-braces")
    if case["mode"] == "print-args" and (case.get("labels") or [None])[0] == "" and case["sep"] != "":
        keys.append("fmt:print-with-leading-empty-argument")
    if any(a.get("nested") for a in args) and mode in ("print-format", "assert-format", "assume-format"):
        keys.append("fmt:nested-width-field")
    if mode == "assert-str" and ("{" in case["strmsg"] or "}" in case["strmsg"]): keys.append("fmt:str-message-with-braces")
    ctx.note(case, case["opts"] >= 2 or "fmt:negative" in keys, *keys, evals=max(len(results), 1))


# ------------------------------------------------------------------------------------------ rejected specs
@st.composite
def reject_cases(draw):
    k = draw(INT(0, 9))
    shape = [draw(INT(1, 16)), draw(BOOL)]
    if k == 0: spec = PICK(draw, ["^", "*^8", "^5d"])
    elif k == 1: spec = PICK(draw, [",", "10,", ",d", "_,"])
    elif k == 2: spec = PICK(draw, ["n", "5n"])
    elif k == 3: spec = PICK(draw, [".3", "8.2", ".1d", "5.0x"])
    elif k == 4: spec = PICK(draw, ["e", "f", "g", "%", "E", "F", "G", "8.3f"])
    elif k == 5:
        spec = PICK(draw, ["+", "-", " ", "#", "0", "=", "_"]) + PICK(draw, ["c", "s"])
        if spec[0] == "=": spec = "*=" + "5" + spec[1]
        if spec[0] == "0": spec = "05" + spec[1]
        shape = [8, False]
    elif k == 6:
        spec = "s"; shape = [PICK(draw, [1, 3, 7, 9, 12, 15]), False]
    elif k == 7:
        spec = PICK(draw, ["c", "s"]); shape = [8, True]
    elif k == 8: spec = PICK(draw, ["dd", "xb", "5 d", "d5", "++", "q", "r", "!r", "z"])
    else: spec = PICK(draw, ["010_,d", "#^", " n", "+.2"])
    return {"spec": spec, "shape": shape}


def reject_body(ctx, case):
    sig = Signal(Shape(case["shape"][0], case["shape"][1]))
    try:
        with warnings.catch_warnings():
            warnings.simplefilter("ignore")
            Format("{:" + case["spec"] + "}", sig)
    except (ValueError, TypeError):
        ctx.note(case, True, "reject:raised")
        return
    raise Mismatch("invalid-spec-accepted", spec=case["spec"], shape=case["shape"])


# ------------------------------------------------------------------------------------------ timing
def bodies_of(body, out):
    out.append(body)
    for s in body:
        if s[0] == "if":
            for _, b in s[1]:
                bodies_of(b, out)
            if s[2] is not None:
                bodies_of(s[2], out)
        elif s[0] in ("switch", "fsm"):
            for _, b in s[2]:
                bodies_of(b, out)
    return out


@st.composite
def timing_cases(draw, depth, nev):
    dcfg = {"sync": {"clk_edge": PICK(draw, ["pos", "pos", "neg"]), "async_reset": draw(BOOL)}}
    if draw(INT(0, 5)) == 0:
        dcfg["sync"]["reset_less"] = True
        dcfg["sync"]["async_reset"] = False
    g = ProgGen(draw, depth=depth, sync_domains=("sync",))
    prog = g.program()
    k = len(prog["env"])
    prog["env"].append([1, False]); prog["dom"][str(k)] = "sync"; prog["init"][str(k)] = 0   # domain always exists
    eg = ExprGen(prog["env"], cap=24)
    slots = bodies_of(prog["body"], [])
    nstm = draw(INT(1, 5))
    n_assert = 0
    for j in range(nstm):
        b = slots[draw(INT(0, len(slots) - 1))]
        e = eg.limit(draw, eg.expr(draw, draw(INT(0, 2))), 24)
        kind = PICK(draw, ["print", "print", "print", "assert", "assume"])
        if kind != "print" and n_assert >= 2:
            kind = "print"
        if kind != "print":
            n_assert += 1
            # conditions are biased towards non-zero so that runs survive for a while
            cond = ["b", "|", e, ["const", draw(INT(0, 3)), 2, False]] if draw(INT(0, 2)) else e
            st_ = [kind, "sync", j, cond, e]
        else:
            st_ = ["print", "sync", j, e]
        b.insert(draw(INT(0, len(b))), st_)
    evs = draw(stimulus(prog, nev, domains=("sync",), resets="reset_less" not in dcfg["sync"]))
    # "fall": the inactive clock edge on its own, so that input / reset changes also land in the other half-cycle
    for _ in range(draw(INT(0, 3))):
        evs.insert(draw(INT(0, len(evs))), ["fall"])
    for i in range(len(evs) - 1, -1, -1):
        if evs[i][0] == "rst" and draw(INT(0, 2)) == 0:
            evs.insert(i, ["fall"])
    # a checker submodule whose clocked domain holds nothing but Print / Assert statements, optionally under
    # EnableInserter (then it is active only at edges where the enable expression is non-zero)
    mon = None
    if draw(INT(0, 2)) == 0:
        mon = {"en": eg.limit(draw, eg.expr(draw, draw(INT(0, 1))), 24) if draw(INT(0, 3)) else None,
               "prints": [eg.limit(draw, eg.expr(draw, draw(INT(0, 2))), 24) for _ in range(draw(INT(0, 2)))],
               "cond": None}
        if not mon["prints"] or draw(INT(0, 3)) == 0:
            e = eg.limit(draw, eg.expr(draw, draw(INT(0, 2))), 24)
            mon["cond"] = ["b", "|", e, ["const", draw(INT(0, 3)), 2, False]]
    return {"prog": prog, "events": evs, "domains": dcfg, "monitor": mon}


def timing_body(ctx, case):
    prog, dcfg = case["prog"], case["domains"]
    env = prog["env"]

    def extra(m, st_, sigs):
        if st_[0] == "print":
            m.d[st_[1]] += Print(Format("P{}:{}", st_[2], B.expr(st_[3], sigs)))
        else:
            K = Assert if st_[0] == "assert" else Assume
            m.d[st_[1]] += K(B.expr(st_[3], sigs), Format("A{}:{}", st_[2], B.expr(st_[4], sigs)))
    with warnings.catch_warnings():
        warnings.simplefilter("ignore")
        b = build_program(prog, domains=dcfg, extra=extra)
        it = R.Interp(prog)
        mon = case.get("monitor")
        if mon:
            mm = Module()
            for j, e in enumerate(mon["prints"]):
                mm.d.sync += Print(Format("M{}:{}", j, B.expr(e, b.sigs)))
            if mon["cond"] is not None:
                mm.d.sync += Assert(B.expr(mon["cond"], b.sigs), "MA")
            b.m.submodules.mon = (EnableInserter({"sync": Value.cast(B.expr(mon["en"], b.sigs)).bool()})(mm)
                                  if mon["en"] is not None else mm)
        sim = Simulator(b.m)
    cd = b.cds["sync"]
    inputs = {i: 0 for i in prog["inputs"]}
    vals, fstate = it.initial(inputs)
    vals = it.settle(vals, fstate)
    active = 1 if cd.clk_edge == "pos" else 0
    stats = dict(prints=0, silent_edges=0, inactive_before_active=False, stopped=False, reset_rise=0, other_events=0,
                 monitor_on=0, monitor_off=0, low_phase_reset_rise=0)
    fail = []

    def run_edge(vals, fstate, rst):
        """-> (expected text, list of acceptable assertion messages, new vals, new fstate)"""
        out, errs = [], []

        def hook(st_, v, domain):
            if domain != st_[1]:
                return
            if st_[0] == "print":
                out.append(f"P{st_[2]}:{R.evaluate(st_[3], env, v)}\n")
            else:
                if R.evaluate(st_[3], env, v) == 0:
                    kind = "Assertion" if st_[0] == "assert" else "Assumption"
                    errs.append(f"{kind} violated: A{st_[2]}:{R.evaluate(st_[4], env, v)}")
        nv, nf = it.edge(vals, fstate, "sync", rst=rst, hooks=hook)
        if mon and (mon["en"] is None or R.evaluate(mon["en"], env, vals) != 0):
            stats["monitor_on"] += 1
            for j, e in enumerate(mon["prints"]):
                out.append(f"M{j}:{R.evaluate(e, env, vals)}\n")
            if mon["cond"] is not None and R.evaluate(mon["cond"], env, vals) == 0:
                errs.append("Assertion violated: MA")
        elif mon:
            stats["monitor_off"] += 1
        return "".join(out), errs, nv, nf

    def split(text):
        lines = text.splitlines()
        return [l for l in lines if l[:1] != "M"], [l for l in lines if l[:1] == "M"]

    async def tb(c):
        nonlocal vals, fstate
        rst = 0
        level = 0                               # current clock level
        seen_silent = False
        for step, ev in enumerate(case["events"]):
            buf = io.StringIO()
            err = None
            exp_text, exp_errs = "", []
            with contextlib.redirect_stdout(buf):
                try:
                    if ev[0] == "in":
                        for k, v in ev[1].items():
                            c.set(b.sigs[int(k)], v)
                            vals[int(k)] = v
                        vals = it.settle(vals, fstate)
                        stats["other_events"] += 1
                    elif ev[0] == "rst":
                        if cd.rst is None:
                            continue
                        old, rst = rst, ev[2]
                        c.set(cd.rst, rst)
                        if cd.async_reset and rst == 1 and old == 0:
                            vals, fstate = it.async_reset(vals, fstate, "sync")
                            stats["reset_rise"] += 1
                            if level != active: stats["low_phase_reset_rise"] += 1
                        stats["other_events"] += 1
                    elif ev[0] == "fall":
                        c.set(cd.clk, 1 - active); level = 1 - active
                        stats["other_events"] += 1
                    else:
                        c.set(cd.clk, 1 - active)          # inactive edge (or no change): nothing may happen
                        if buf.getvalue():
                            fail.append(Mismatch("output-at-inactive-edge", step=step, output=buf.getvalue())); return
                        exp_text, exp_errs, nv, nf = run_edge(vals, fstate, bool(rst) and cd.rst is not None)
                        c.set(cd.clk, active); level = active
                        vals, fstate = nv, nf
                except AssertionError as e:
                    err = str(e)
            got = buf.getvalue()
            if ev[0] != "tick":
                if got or err is not None:
                    fail.append(Mismatch("output-or-assertion-outside-active-edge", step=step, event=ev, output=got,
                                         error=err, async_reset=bool(cd.async_reset))); return
                continue
            if exp_errs:
                stats["stopped"] = True
                if err is None:
                    fail.append(Mismatch("assertion-did-not-stop-simulation", step=step, expected_one_of=exp_errs)); return
                if err not in exp_errs:
                    fail.append(Mismatch("assertion-text", step=step, expected_one_of=exp_errs, actual=err)); return
                return
            if err is not None:
                fail.append(Mismatch("spurious-assertion", step=step, error=err)); return
            if split(got) != split(exp_text):
                fail.append(Mismatch("print-timing", step=step, event=ev, expected=exp_text, actual=got)); return
            if exp_text:
                stats["prints"] += 1
                if seen_silent: stats["inactive_before_active"] = True
            else:
                stats["silent_edges"] += 1
                seen_silent = True
    with warnings.catch_warnings():
        warnings.simplefilter("ignore")
        sim.add_testbench(tb)
        try:
            sim.run()
        except AssertionError as e:
            # raised through sim.run() rather than inside ctx.set: equivalent for the property ("stops the simulation")
            fail.append(HarnessError(f"assertion escaped the event bookkeeping: {e}"))
    if fail:
        raise fail[0]
    keys = ["tim:edge-" + cd.clk_edge]
    if cd.async_reset: keys.append("tim:async-reset")
    if stats["prints"]: keys.append("tim:printed")
    if stats["silent_edges"]: keys.append("tim:silent-edge")
    if stats["inactive_before_active"]: keys.append("tim:inactive-before-active")
    if stats["stopped"]: keys.append("tim:assert-stopped")
    if stats["reset_rise"] and cd.async_reset: keys.append("tim:async-reset-rise")
    if stats["low_phase_reset_rise"]: keys.append("tim:async-reset-rise-after-inactive-edge")
    if mon:
        keys.append("tim:monitor-enable-inserter" if mon["en"] is not None else "tim:monitor-plain")
        if mon["en"] is not None and stats["monitor_on"]: keys.append("tim:monitor-enabled-edge")
        if mon["en"] is not None and stats["monitor_off"]: keys.append("tim:monitor-disabled-edge")
    ctx.note(case, stats["inactive_before_active"] or stats["stopped"], *keys, evals=len(case["events"]))


def parts(tier):
    q = tier == "quick"
    return [
        Part("format", "hyp", strategy=format_cases(), body=format_body, n=500 if q else 8000),
        Part("reject", "hyp", strategy=reject_cases(), body=reject_body, n=120 if q else 1000),
        Part("timing", "hyp", strategy=timing_cases(2 if q else 3, 14 if q else 30), body=timing_body, n=150 if q else 1500),
    ]


REQUIRED = ["fmt:print-format", "fmt:print-args", "fmt:assert-format", "fmt:assume-format", "fmt:assert-str",
            "fmt:type-none", "fmt:type-d", "fmt:type-b", "fmt:type-o", "fmt:type-x", "fmt:type-X", "fmt:type-c", "fmt:type-s",
            "fmt:negative", "fmt:width0", "fmt:align=", "fmt:fill", "fmt:literal-braces", "fmt:print-with-leading-empty-argument", "fmt:str-message-with-braces",
            "reject:raised", "tim:edge-pos", "tim:edge-neg", "tim:async-reset", "tim:printed", "tim:silent-edge",
            "tim:inactive-before-active", "tim:assert-stopped", "tim:async-reset-rise",
            "tim:async-reset-rise-after-inactive-edge", "tim:monitor-enable-inserter", "tim:monitor-plain",
            "tim:monitor-enabled-edge", "tim:monitor-disabled-edge", "fmt:s-zero-byte-below-a-character", "fmt:nested-width-field"]
