"""Descriptor -> amaranth objects. Only public API is used to build values."""
import warnings
from amaranth.hdl import Signal, Const, Cat, Mux, Array, Shape, Value


def mkshape(w, s):
    return Shape(w, bool(s))


def make_inputs(env, prefix="i", inits=None):
    sigs = []
    for i, (w, s) in enumerate(env):
        kw = {}
        if inits is not None:
            kw["init"] = inits[i]
        sigs.append(Signal(mkshape(w, s), name=f"{prefix}{i}", **kw))
    return sigs


def expr(e, sigs):
    """Build the amaranth value for an expression descriptor."""
    k = e[0]
    if k == "sig":
        return sigs[e[1]]
    if k == "const":
        return Const(e[1], mkshape(e[2], e[3]))
    if k == "int":
        return e[1]
    if k == "u":
        a = Value.cast(expr(e[2], sigs))
        op = e[1]
        if op == "~": return ~a
        if op == "neg": return -a
        if op == "abs": return abs(a)
        if op == "bool": return a.bool()
        if op == "any": return a.any()
        if op == "all": return a.all()
        if op == "xor": return a.xor()
        if op == "as_u": return a.as_unsigned()
        if op == "as_s": return a.as_signed()
    if k == "b":
        a = expr(e[2], sigs)
        b = expr(e[3], sigs)
        if isinstance(a, int) and isinstance(b, int):
            a = Const(a)
        op = e[1]
        if op == "+": return a + b
        if op == "-": return a - b
        if op == "*": return a * b
        if op == "//": return a // b
        if op == "%": return a % b
        if op == "==": return a == b
        if op == "!=": return a != b
        if op == "<": return a < b
        if op == "<=": return a <= b
        if op == ">": return a > b
        if op == ">=": return a >= b
        if op == "&": return a & b
        if op == "|": return a | b
        if op == "^": return a ^ b
        if op == "<<": return a << b
        if op == ">>": return a >> b
    if k == "shl": return Value.cast(expr(e[1], sigs)).shift_left(e[2])
    if k == "shr": return Value.cast(expr(e[1], sigs)).shift_right(e[2])
    if k == "rol": return Value.cast(expr(e[1], sigs)).rotate_left(e[2])
    if k == "ror": return Value.cast(expr(e[1], sigs)).rotate_right(e[2])
    if k == "idx": return Value.cast(expr(e[1], sigs))[e[2]]
    if k == "slice": return Value.cast(expr(e[1], sigs))[e[2]:e[3]]
    if k == "sslice": return Value.cast(expr(e[1], sigs))[e[2]:e[3]:e[4]]
    if k == "cat":
        with warnings.catch_warnings():
            warnings.simplefilter("ignore")
            return Cat(*[expr(p, sigs) for p in e[1]])
    if k == "rep": return Value.cast(expr(e[1], sigs)).replicate(e[2])
    if k == "bsel": return Value.cast(expr(e[1], sigs)).bit_select(expr(e[2], sigs), e[3])
    if k == "wsel": return Value.cast(expr(e[1], sigs)).word_select(expr(e[2], sigs), e[3])
    if k == "mux": return Mux(expr(e[1], sigs), expr(e[2], sigs), expr(e[3], sigs))
    if k == "arr": return Array([expr(x, sigs) for x in e[1]])[expr(e[2], sigs)]
    if k == "match":
        with warnings.catch_warnings():
            warnings.simplefilter("ignore")
            return Value.cast(expr(e[1], sigs)).matches(*e[2])
    raise ValueError(f"bad descriptor {e!r}")
