import sys
from vlib.runner import main
sys.exit(main(sys.argv[1:]))
