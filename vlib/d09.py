"""Design / build-plan builders used by the C09 reproducibility check, importable in child interpreters
(which are started with different PYTHONHASHSEED values). Input is a plain JSON descriptor."""
import hashlib, io, json, sys, warnings


def _keeper(w, src, dname):
    from amaranth.hdl import Module, Signal, ClockDomain, Elaboratable

    class Keeper(Elaboratable):
        def __init__(self):
            self.cd = ClockDomain(dname)
            self.z = Signal(w, name="kz")

        def elaborate(self, platform):
            m = Module()
            m.domains += self.cd
            m.d[dname] += self.z.eq(self.z + src)
            return m
    return Keeper()


def _holder(cell):
    from amaranth.hdl import Elaboratable

    class Holder(Elaboratable):
        def elaborate(self, platform):
            return cell
    return Holder()


def build_design(desc):
    from amaranth.hdl import Module, Signal, ClockSignal, ResetSignal, Instance, Const, DomainRenamer, EnableInserter, MemoryData, MemoryInstance
    from amaranth.lib.memory import Memory
    from vlib.gen_prog import build_program
    top = Module()
    b = build_program(desc["prog"], module=top, make_domains=False)       # every domain is implicit
    sigs = b.sigs
    doms = desc["doms"]
    ports = [sigs[i] for i in desc["prog"]["inputs"]] + [sigs[i] for i in desc["port_targets"]]
    # anonymous and named submodules with clashing signal names
    used_names = set()
    for j, sub in enumerate(desc["subs"]):
        m = Module()
        x = Signal(sub["w"], name=sub["name"])            # the same name is used in several modules
        y = Signal(sub["w"], name=sub["name"])
        src = sigs[sub["src"]]
        m.d.comb += x.eq(src)
        m.d[sub["dom"]] += y.eq(y + x)
        # plain taps: several named signals on the same nets, the later ones carrying attributes
        tap = Signal(sub["w"], name="tap", attrs={"mark": "1", "keep": 1})
        tap2 = Signal(sub["w"], name="tap2", attrs={"debug": "yes"})
        m.d.comb += [tap.eq(x), tap2.eq(tap)]
        if sub.get("inst"):
            o = Signal(2, name="inst_o")
            cell = Instance("ext_block", i_clk=ClockSignal(sub["dom"]), i_rst=ResetSignal(sub["dom"]),
                            i_d=x, o_q=o, p_WIDTH=sub["w"], a_keep=1)
            if sub.get("inst_kept"):
                m.submodules.holder = _holder(cell)       # a component whose elaborate() returns the instance it keeps
            else:
                m.submodules += cell
            ports.append(o)
        if sub.get("mem"):
            mem = Memory(shape=max(sub["w"], 1), depth=3, init=[1, 2])
            wp = mem.write_port(domain=sub["dom"])
            rp = mem.read_port(domain=doms[(j + 1) % len(doms)])
            m.submodules.mem = mem
            m.d.comb += [wp.addr.eq(x), wp.data.eq(y), wp.en.eq(1), rp.addr.eq(y)]
            ports.append(rp.data)
        ports.append(y)
        if sub.get("rawmem"):
            # the low-level memory primitive, created once and kept by the module (a leaf fragment that is used
            # as-is every time the design is elaborated), clocked by an implicitly created domain
            md = MemoryData(shape=max(sub["w"], 1), depth=2, init=[1])
            rmem = MemoryInstance(data=md)
            rdata = Signal(max(sub["w"], 1), name="raw_rd")
            wi = rmem.write_port(domain=sub["dom"], addr=x[0] if sub["w"] else Const(0, 1), data=y if sub["w"] else Const(0, 1),
                                 en=Const(1, 1))
            rmem.read_port(domain=sub["dom"], addr=y[0] if sub["w"] else Const(0, 1), data=rdata, en=Const(1, 1),
                           transparent_for=[wi])
            if sub.get("rawmem") == 2:
                # the component that keeps it is wrapped in a control inserter, applied anew at every elaboration
                m.submodules.rawmem = EnableInserter({sub["dom"]: x[0] if sub["w"] else Const(1, 1)})(_holder(rmem))
            else:
                m.submodules.rawmem = rmem
            ports.append(rdata)
        if sub.get("keeper"):
            # a component that keeps its ClockDomain object between elaborations and defines it in its module,
            # wrapped in a DomainRenamer (the renamer renames the kept object)
            k = _keeper(sub["w"], x, sub["keeper"]["defines"])
            m.submodules.keeper = DomainRenamer(dict(sub["keeper"]["map"]))(k)
            ports += [k.z, k.cd.clk, k.cd.rst]
        if sub["anon"] or sub["name"] in used_names:
            top.submodules += m
        else:
            used_names.add(sub["name"])
            setattr(top.submodules, sub["name"], m)       # submodule named like its signals
    return top, ports


def _port_form(desc, ports):
    """The port list as bare signals, as (name, signal, direction) triples or as a dict - the same object is handed to
    both conversions of a design."""
    form = desc.get("port_form", 0)
    if form == 1:
        return [(f"p{i}", sig, None) for i, sig in enumerate(ports)]
    if form == 2:
        return {f"p{i}": (sig, None) for i, sig in enumerate(ports)}
    return ports


def rtlil_hashes(descs):
    """Per design: sha256 of (fresh build, the same object converted again, another fresh build)."""
    from amaranth.back import rtlil
    out = []
    for desc in descs:
        with warnings.catch_warnings():
            warnings.simplefilter("ignore")
            top, ports = build_design(desc)
            ports = _port_form(desc, ports)
            t1 = rtlil.convert(top, ports=ports)
            try:
                t2 = rtlil.convert(top, ports=ports)
            except Exception as e:
                t2 = f"second conversion raised {type(e).__name__}: {e}"
            top3, ports3 = build_design(desc)
            t3 = rtlil.convert(top3, ports=_port_form(desc, ports3))
        out.append([hashlib.sha256(t.encode()).hexdigest() for t in (t1, t2, t3)])
    return out


def build_plan(case):
    """C19-style platform description -> BuildPlan (nothing is executed)."""
    from vchecks import c19
    from amaranth.hdl import Module, Signal, Elaboratable, ClockDomain
    from amaranth.lib import io
    desc = case["desc"]
    cls, attrs, fname = c19.VENDORS[case["vendor"]]
    owner, todo = set(), []
    for i, mode in case["use"]:
        r = desc["resources"][i]
        pins = []
        for path, leaf in c19.leaves(r):
            ps, ns = c19.leaf_pins(desc, leaf)
            pins += ps + ns
        if len(set(pins)) != len(pins) or set(pins) & owner:
            continue
        owner |= set(pins)
        todo.append(r)

    class Design(Elaboratable):
        def elaborate(self, platform):
            m = Module()
            m.domains.sync = ClockDomain()
            for r in todo:
                val = platform.request(r["name"], r["number"], dir="-")
                for path, leaf in c19.leaves(r):
                    obj = val
                    for nm in path:
                        obj = getattr(obj, nm)
                    d = {"i": "i", "o": "o", "oe": "o", "io": "io"}[leaf["pins"]["dir"]]
                    if d == "io" and "n" in leaf["pins"]:
                        d = "o"        # some vendors (iCE40) refuse bidirectional differential buffers: not this property's subject
                    buf = io.Buffer(d, obj)
                    m.submodules += buf
                    if d != "i":
                        s = Signal(len(obj)); m.d.sync += s.eq(s + 1); m.d.comb += [buf.o.eq(s), buf.oe.eq(1)]
                    if d != "o":
                        s = Signal(len(obj)); m.d.sync += s.eq(buf.i)
            return m
    with warnings.catch_warnings():
        warnings.simplefilter("ignore")
        P = type("P", (cls,), dict(attrs, resources=c19.build_resources(desc), connectors=c19.build_connectors(desc),
                                   default_clk=None, default_rst=None))
        return P().build(Design(), do_build=False)


def plan_hashes(cases):
    out = []
    for case in cases:
        plan = build_plan(case)
        buf = io.BytesIO()
        plan.archive(buf)
        files = {k: hashlib.sha256(v.encode() if isinstance(v, str) else v).hexdigest() for k, v in plan.files.items()}
        out.append({"digest": plan.digest().hex(), "archive": hashlib.sha256(buf.getvalue()).hexdigest(), "files": files,
                    "order": list(plan.files)})
    return out


if __name__ == "__main__":
    mode, path = sys.argv[1], sys.argv[2]
    with open(path) as f:
        payload = json.load(f)
    res = rtlil_hashes(payload) if mode == "rtlil" else plan_hashes(payload)
    sys.stdout.write(json.dumps(res))
