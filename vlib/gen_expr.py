"""Typed expression grammar as Hypothesis strategies. Built by construction: every generated
descriptor is inside the documented input domain (no rejection)."""
import functools
from hypothesis import strategies as st
from vlib import refsem as R


# Strategy objects are cached: constructing and validating a strategy per draw dominates the cost
# of generating large programs otherwise.
@functools.lru_cache(maxsize=None)
def INT(lo, hi):
    return st.integers(lo, hi)


BOOL = st.booleans()


def PICK(draw, seq):
    seq = list(seq)
    return seq[draw(INT(0, len(seq) - 1))]


@functools.lru_cache(maxsize=None)
def _value_strategy(w, s):
    if w == 0:
        return st.just(0)
    if s:
        full = st.integers(-(1 << (w - 1)), (1 << (w - 1)) - 1)
    else:
        full = st.integers(0, (1 << w) - 1)
    return st.one_of(st.sampled_from(corner_values(w, s)), full)


_SMALL_INTS = st.one_of(st.integers(-9, 9), st.sampled_from([-128, -17, 16, 31, 255]))

UNARY = ["~", "neg", "abs", "bool", "any", "all", "xor", "as_s", "as_u"]
ARITH = ["+", "-", "*", "//", "%"]
CMP = ["==", "!=", "<", "<=", ">", ">="]
BITW = ["&", "|", "^"]
BINARY = ARITH + CMP + BITW + ["<<", ">>"]


def draw_shape(draw, maxw=6, allow_zero=True):
    s = draw(BOOL)
    lo = 1 if s else (0 if allow_zero else 1)
    # bias towards tiny widths (0, 1, 2) where corner cases live
    w = draw(INT(lo, min(2, maxw))) if draw(BOOL) else draw(INT(lo, maxw))
    return [w, s]


@st.composite
def shapes(draw, maxw=6, allow_zero=True):
    return draw_shape(draw, maxw, allow_zero)


def corner_values(w, s):
    if w == 0:
        return [0]
    if s:
        lo, hi = -(1 << (w - 1)), (1 << (w - 1)) - 1
        c = {lo, hi, 0, -1, 1, lo + 1, hi - 1}
    else:
        hi = (1 << w) - 1
        c = {0, 1, hi, hi - 1, hi >> 1, (hi >> 1) + 1}
    alt = int(("01" * w)[:w] or "0", 2)
    c |= {R.wrap(alt, w, s), R.wrap(alt << 1, w, s)}
    return sorted(x for x in c if R.fits(x, w, s))


def value_of_shape(w, s):
    return _value_strategy(w, bool(s))


class ExprGen:
    """draw-based recursive generator; tracks shapes so constraints are met by construction."""
    def __init__(self, env, cap=64, allow_arr=True, readable=None):
        self.env = env
        self.cap = cap
        self.allow_arr = allow_arr
        self.readable = list(range(len(env))) if readable is None else list(readable)

    def shape(self, e):
        return R.shape_of(e, self.env)

    # -- coercions ---------------------------------------------------------------------
    def limit(self, draw, e, maxw):
        """Make e at most maxw bits wide (by slicing low bits / a part-select)."""
        w, s = self.shape(e)
        if w <= maxw:
            return e
        return ["slice", e, 0, maxw]

    def unsigned(self, draw, e, maxw=None):
        w, s = self.shape(e)
        if s:
            e = ["u", "as_u", e] if draw(BOOL) else ["slice", e, 0, w]
        if maxw is not None:
            e = self.limit(draw, e, maxw)
        return e

    def var_offset(self, draw, e, maxw):
        """An unsigned offset expression that amaranth does not constant-fold into a Python slice
        (constant offsets take the clipping `a[off:off+w]` path, which is generated separately and
        only fully inside the operand)."""
        e = self.unsigned(draw, e, maxw=maxw)
        # roots that amaranth may return as a bare Const (literals, abs() of an unsigned constant,
        # matches() with no satisfiable pattern)
        if e[0] in ("int", "const", "match") or (e[0] == "u" and e[1] == "abs"):
            e = ["u", "as_u", e]
        return e

    def nonzero_width(self, draw, e):
        w, s = self.shape(e)
        if w == 0:
            return ["cat", [e, ["const", draw(INT(0, 1)), 1, False]]]
        return e

    # -- leaves ------------------------------------------------------------------------
    def leaf(self, draw):
        kinds = ["sig"] * 5 + ["const"] * 2 + ["int"]
        k = PICK(draw, (kinds)) if self.readable else PICK(draw, (["const", "int"]))
        if k == "sig":
            return ["sig", PICK(draw, (self.readable))]
        if k == "const":
            w, s = draw_shape(draw, 6)
            return ["const", draw(value_of_shape(w, s)), w, s]
        return ["int", draw(_SMALL_INTS)]

    # -- recursive ---------------------------------------------------------------------
    def expr(self, draw, depth):
        if depth <= 0 or draw(INT(0, 9)) == 0:
            return self.leaf(draw)
        prods = ["u", "b", "b", "b", "shift", "rot", "idx", "slice", "sslice", "cat", "rep",
                 "bsel", "wsel", "mux", "match", "shiftv"]
        if self.allow_arr:
            prods.append("arr")
        p = PICK(draw, (prods))
        e = getattr(self, "p_" + p)(draw, depth - 1)
        w, s = self.shape(e)
        if w > self.cap:
            e = ["slice", e, 0, self.cap] if draw(BOOL) else ["slice", e, w - self.cap, w]
        return e

    def p_u(self, draw, d):
        op = PICK(draw, (UNARY))
        a = self.expr(draw, d)
        if op == "as_s":
            a = self.nonzero_width(draw, a)
        return ["u", op, a]

    def p_b(self, draw, d):
        op = PICK(draw, (ARITH + CMP + BITW))
        a, b = self.expr(draw, d), self.expr(draw, d)
        if op == "*":
            a, b = self.limit(draw, a, self.cap // 2), self.limit(draw, b, self.cap // 2)
        return ["b", op, a, b]

    def p_shiftv(self, draw, d):
        op = PICK(draw, (["<<", ">>"]))
        a = self.expr(draw, d)
        b = self.unsigned(draw, self.expr(draw, d), maxw=3 if op == "<<" else 5)
        if op == "<<":
            a = self.limit(draw, a, self.cap - 7)
        return ["b", op, a, b]

    def p_shift(self, draw, d):
        a = self.expr(draw, d)
        return [PICK(draw, (["shl", "shr"])), a, draw(INT(-6, 9))]

    def p_rot(self, draw, d):
        a = self.expr(draw, d)
        return [PICK(draw, (["rol", "ror"])), a, draw(INT(-20, 20))]

    def p_idx(self, draw, d):
        a = self.nonzero_width(draw, self.expr(draw, d))
        w, _ = self.shape(a)
        return ["idx", a, draw(INT(-w, w - 1))]

    def p_slice(self, draw, d):
        a = self.expr(draw, d)
        w, _ = self.shape(a)
        def bound():
            return None if draw(INT(0, 5)) == 0 else draw(INT(-w - 3, w + 3))
        start, stop = bound(), bound()
        i, j, _ = slice(start, stop).indices(w)
        if i > j:
            start, stop = stop, start
            i, j, _ = slice(start, stop).indices(w)
            if i > j:          # e.g. (None, None) swapped cannot happen; negative/None mixes can
                start, stop = i, i
        return ["slice", a, start, stop]

    def p_sslice(self, draw, d):
        a = self.expr(draw, d)
        w, _ = self.shape(a)
        def bound():
            return None if draw(INT(0, 3)) == 0 else draw(INT(-w - 2, w + 2))
        step = PICK(draw, ([2, 3, -1, -2, -3]))
        return ["sslice", a, bound(), bound(), step]

    def p_cat(self, draw, d):
        n = draw(INT(0, 3))
        return ["cat", [self.expr(draw, d) for _ in range(n)]]

    def p_rep(self, draw, d):
        a = self.limit(draw, self.expr(draw, d), 16)
        return ["rep", a, draw(INT(0, 3))]

    def p_bsel(self, draw, d):
        a = self.expr(draw, d)
        wa, _ = self.shape(a)
        width = draw(INT(0, 6))
        if draw(INT(0, 5)) == 0 and wa >= width:
            off = ["int", draw(INT(0, wa - width))]      # constant offset, fully inside
        else:
            off = self.var_offset(draw, self.expr(draw, d), 4)
        return ["bsel", a, off, width]

    def p_wsel(self, draw, d):
        a = self.expr(draw, d)
        wa, _ = self.shape(a)
        width = draw(INT(0, 5))
        if width == 0 or (draw(INT(0, 5)) == 0 and wa >= width):
            # (a variable-offset word_select of width 0 is rejected by design: the test suite pins TypeError)
            off = ["int", draw(INT(0, (wa // width - 1) if width else 3))]
        else:
            off = self.var_offset(draw, self.expr(draw, d), 3)
        return ["wsel", a, off, width]

    def p_mux(self, draw, d):
        return ["mux", self.expr(draw, d), self.expr(draw, d), self.expr(draw, d)]

    def p_arr(self, draw, d):
        idx = self.unsigned(draw, self.expr(draw, d), maxw=2)
        if idx[0] == "int":      # Array()[python int] is plain list indexing, not an array proxy
            idx = ["const", idx[1], self.shape(idx)[0], False]
        wi, _ = self.shape(idx)
        n = 1 << wi      # every index value is in range and every element is reachable
        return ["arr", [self.expr(draw, max(d - 1, 0)) for _ in range(n)], idx]

    def pattern(self, draw, w, s):
        if draw(BOOL):
            body = "".join(PICK(draw, "01-") for _ in range(w))
            if draw(INT(0, 3)) == 0 and w > 1:
                k = draw(INT(1, w - 1))
                body = body[:k] + PICK(draw, ([" ", "\t", "  "])) + body[k:]
            return body
        # integers, some of them not representable in the matched shape
        if draw(BOOL):
            return draw(value_of_shape(w, s))
        if draw(BOOL) and w:
            # the other integer with the same w-bit pattern as a representable value (never matches)
            v = draw(value_of_shape(w, s))
            return v - (1 << w) if v >= 0 and not s else v + (1 << w) if v < 0 else v - (1 << w)
        return draw(INT(-(1 << w) - 1, (1 << w) + 1))

    def p_match(self, draw, d):
        a = self.limit(draw, self.expr(draw, d), 8)
        w, s = self.shape(a)
        n = draw(INT(0, 3))
        return ["match", a, [self.pattern(draw, w, s) for _ in range(n)]]


@st.composite
def expr_case(draw, depth=3, maxw=6, nsig=(1, 3), cap=64):
    n = draw(INT(*nsig))
    env = [draw_shape(draw, maxw) for _ in range(n)]
    g = ExprGen(env, cap=cap)
    e = g.expr(draw, depth)
    return {"env": env, "expr": e}


def input_vectors(env, limit_bits=10, extra=24, rng_draw=None):
    """All input combinations when the total width is small; otherwise the corner grid (capped)."""
    import itertools
    total = sum(w for w, _ in env)
    if total <= limit_bits:
        ranges = [range(-(1 << (w - 1)), 1 << (w - 1)) if s else range(0, 1 << w) if w else [0] for w, s in env]
        ranges = [r if (w := env[i][0]) > 0 else [0] for i, r in enumerate(ranges)]
        return [list(v) for v in itertools.product(*ranges)], True
    corners = [corner_values(w, s) for w, s in env]
    grid = list(itertools.islice(itertools.product(*corners), 400))
    return [list(v) for v in grid], False
