"""Statement / program grammar (Hypothesis strategies, by construction) and the amaranth builder.

A program's signals live in one combined environment `env`: inputs first, then targets, then the
`ongoing()` pseudo-signals of FSMs; expressions are ordinary gen_expr descriptors over that env.
Comb targets are layered (layer 1 reads inputs/registers only, layer 2 may also read layer 1) so
that every generated design is acyclic by construction.
"""
import warnings
from hypothesis import strategies as st
from amaranth.hdl import Module, Signal, ClockDomain, Value

from vlib import refsem as R, build as B
from vlib.gen_expr import ExprGen, shapes, draw_shape, value_of_shape, INT, BOOL, PICK


class ProgGen:
    def __init__(self, draw, *, depth=3, expr_depth=2, maxw=6, sync_domains=("sync",), allow_fsm=True,
                 n_inputs=(1, 3), n_targets=(2, 5), allow_zero_targets=True):
        self.draw = draw
        self.depth = depth
        self.expr_depth = expr_depth
        d = draw
        self.env = []
        self.dom, self.init, self.rl = {}, {}, []
        self.inputs = []
        for _ in range(d(INT(*n_inputs))):
            self.inputs.append(len(self.env))
            self.env.append(draw_shape(d, maxw))
        self.comb1, self.comb2, self.regs = [], [], {dn: [] for dn in sync_domains}
        nt = d(INT(*n_targets))
        for _ in range(nt):
            k = len(self.env)
            w, s = draw_shape(d, 8, allow_zero_targets)
            self.env.append([w, s])
            self.init[k] = d(value_of_shape(w, s))
            kind = PICK(d, (["comb1", "comb2", "sync", "sync"]))
            if kind == "comb1":
                self.comb1.append(k); self.dom[k] = "comb"
            elif kind == "comb2":
                self.comb2.append(k); self.dom[k] = "comb"
            else:
                dn = PICK(d, (list(sync_domains)))
                self.regs[dn].append(k); self.dom[k] = dn
                if d(INT(0, 4)) == 0:
                    self.rl.append(k)
        self.fsms, self.ongoing = [], {}
        if allow_fsm and d(INT(0, 2)) == 0:
            ns = d(INT(1, 5))
            states = [f"S{i}" for i in range(ns)]
            order = d(st.permutations(states))
            fs = {"dom": PICK(d, (list(sync_domains))), "states": list(order),
                  "init": PICK(d, [None] + states),
                  "name": PICK(d, (["fsm", "ctl"])),
                  # ongoing() may be asked for before the first State is defined (changes the encoding)
                  "early_ongoing": d(BOOL)}
            self.fsms.append(fs)
            for name in d(st.lists(st.sampled_from(states), max_size=2, unique=True)):
                k = len(self.env)
                self.env.append([1, False])
                self.ongoing[k] = [0, name]
            # a second FSM, sharing state names with the first; it is nested inside a State of the first one when
            # possible (m.next must then bind to the innermost FSM), otherwise placed beside it
            if d(INT(0, 1)) == 0:
                ns2 = d(INT(1, 4))
                states2 = [f"S{i}" for i in range(ns2)]
                fs2 = {"dom": PICK(d, (list(sync_domains))), "states": list(d(st.permutations(states2))),
                       "init": PICK(d, [None] + states2), "name": PICK(d, (["fsm", "inner"])),
                       "early_ongoing": d(BOOL)}
                self.fsms.append(fs2)
                if d(BOOL):
                    k = len(self.env)
                    self.env.append([1, False])
                    self.ongoing[k] = [1, PICK(d, states2)]
        self.nested_placed = False

    # ---- expressions ---------------------------------------------------------------------
    def readable(self, level):
        r = list(self.inputs) + [k for ks in self.regs.values() for k in ks] + list(self.ongoing)
        if level >= 2:
            r += self.comb1
        return r

    def expr(self, level, depth=None):
        g = ExprGen(self.env, cap=32, readable=self.readable(level))
        return g.expr(self.draw, self.expr_depth if depth is None else depth)

    def cond(self, level):
        """Conditions are biased towards simple functions of inputs/registers so that the stimulus
        actually selects different branches."""
        d = self.draw
        r = d(INT(0, 5))
        rd = self.readable(level)
        if r <= 2 and rd:
            k = PICK(d, rd)
            w, s = self.env[k]
            if r == 0 or w == 0:
                return ["sig", k]
            if r == 1:
                return ["idx", ["sig", k], d(INT(0, w - 1))]
            return ["b", PICK(d, ["==", "!=", "<", ">="]), ["sig", k], ["const", d(value_of_shape(w, s)), w, s]]
        return self.expr(level, d(INT(0, self.expr_depth)))

    # ---- targets --------------------------------------------------------------------------
    def lhs(self, level, pool, depth=2):
        """An assignable expression over a non-empty pool of same-domain target indices."""
        d = self.draw
        g = ExprGen(self.env, cap=32, readable=self.readable(level))
        if depth <= 0 or d(INT(0, 2)) == 0:
            return ["sig", PICK(d, (pool))]
        kind = PICK(d, (["slice", "idx", "cat", "bsel", "wsel", "arr", "sign", "rot", "sslice"]))
        if len(pool) >= 3 and depth >= 2 and d(INT(0, 3)) == 0:
            # a slice of one concatenation of three or more parts that reaches into the last part
            perm = list(d(st.permutations(pool)))[:d(INT(3, min(4, len(pool))))]
            cat = ["cat", [["sig", k] for k in perm]]
            w = sum(self.env[k][0] for k in perm)
            last = self.env[perm[-1]][0]
            if last:
                hi = d(INT(w - last + 1, w))
                return ["slice", cat, d(INT(0, hi - 1)), hi]
        if kind == "cat" and len(pool) >= 2:
            # parts use disjoint signals so that no bit is addressed twice by one assignment
            perm = list(d(st.permutations(pool)))
            nparts = d(INT(2, min(4, len(perm))))           # one concatenation of 2..4 parts (not only nested pairs)
            cuts = sorted(d(st.lists(INT(1, len(perm) - 1), min_size=nparts - 1, max_size=nparts - 1, unique=True)))
            chunks = [perm[a:b_] for a, b_ in zip([0] + cuts, cuts + [len(perm)])]
            return ["cat", [self.lhs(level, chunk, depth - 1) for chunk in chunks]]
        inner = self.lhs(level, pool, depth - 1)
        w, _ = R.shape_of(inner, self.env)
        if kind == "idx" and w >= 1:
            return ["idx", inner, d(INT(-w, w - 1))]
        if kind == "slice":
            i, j = sorted((d(INT(0, w)), d(INT(0, w))))
            if d(BOOL) and w:
                return ["slice", inner, i - w if i < w and d(BOOL) else i, j]
            return ["slice", inner, i, j]
        if kind == "sslice" and w >= 2:
            return ["sslice", inner, PICK(d, [None] + list(range(0, w + 1))), None, PICK(d, ([2, 3]))]
        if kind == "bsel":
            off = g.var_offset(d, g.expr(d, 1), 3)
            return ["bsel", inner, off, d(INT(0, 4))]
        if kind == "wsel":
            off = g.var_offset(d, g.expr(d, 1), 2)
            return ["wsel", inner, off, d(INT(1, 3))]
        if kind == "arr":
            idx = g.unsigned(d, g.expr(d, 1), maxw=1)
            if idx[0] == "int":
                idx = ["const", idx[1], R.shape_of(idx, self.env)[0], False]
            n = 1 << R.shape_of(idx, self.env)[0]
            return ["arr", [self.lhs(level, pool, depth - 1) for _ in range(n)], idx]
        if kind == "sign":
            if w == 0:
                return ["u", "as_u", inner]
            return ["u", PICK(d, (["as_s", "as_u"])), inner]
        if kind == "rot":
            return [PICK(d, (["rol", "ror"])), inner, d(INT(-5, 5))]
        return inner

    # ---- statements -------------------------------------------------------------------------
    def pools(self, level):
        pools = []
        comb = self.comb1 if level == 1 else self.comb2
        if comb:
            pools.append(comb)
        for ks in self.regs.values():
            if ks:
                pools.append(ks)
        return pools

    def assign(self, level):
        d = self.draw
        pools = self.pools(level)
        if not pools:
            return None
        pool = PICK(d, (pools))
        L = self.lhs(level, list(pool))
        return ["assign", L, self.expr(level)]

    def body(self, level, depth, fsm=None, maxn=2):
        d = self.draw
        out = []
        for _ in range(d(INT(0 if depth < self.depth else 1, maxn))):
            s = self.stmt(level, depth, fsm)
            if s is not None:
                out.append(s)
        return out

    def stmt(self, level, depth, fsm=None):
        d = self.draw
        kinds = ["assign", "assign", "assign"]
        if depth > 0:
            kinds += ["if", "if", "switch", "switch"]
        if fsm is not None:
            kinds += ["next"]
        if fsm == 0 and len(self.fsms) > 1 and not self.nested_placed and depth > 0:
            kinds += ["nfsm", "nfsm", "nfsm"]
        k = PICK(d, (kinds))
        if k == "nfsm":
            self.nested_placed = True
            return ["fsm", 1, [[name, self.body(level, depth - 1, fsm=1)] for name in self.fsms[1]["states"]]]
        if k == "assign":
            return self.assign(level)
        if k == "next":
            return ["next", fsm, PICK(d, (self.fsms[fsm]["states"]))]
        if k == "if":
            n = d(INT(1, 3))
            arms = [[self.cond(level), self.body(level, depth - 1, fsm)] for _ in range(n)]
            els = self.body(level, depth - 1, fsm) if d(BOOL) else None
            return ["if", arms, els]
        if k == "switch":
            test = ExprGen(self.env, cap=32, readable=self.readable(level)).limit(d, self.expr(level, 1), 5)
            w, s = R.shape_of(test, self.env)
            g = ExprGen(self.env)
            cases = []
            for _ in range(d(INT(0, 4))):
                r = d(INT(0, 9))
                if r == 0:
                    pats = None                                   # Default (possibly followed by more cases)
                elif r == 1:
                    pats = []                                     # Case() with no patterns
                else:
                    pats = [g.pattern(d, w, s) for _ in range(d(INT(1, 3)))]
                cases.append([pats, self.body(level, depth - 1, fsm)])
            return ["switch", test, cases]

    def fsm_stmt(self, level, f):
        return ["fsm", f, [[name, self.body(level, self.depth - 1, fsm=f)] for name in self.fsms[f]["states"]]]

    def program(self):
        d = self.draw
        body = []
        nblocks = d(INT(1, 3))
        fsm_at = d(INT(0, nblocks - 1)) if self.fsms else None
        for i in range(nblocks):
            level = PICK(d, ([1, 2]))
            if i == fsm_at:
                body.append(self.fsm_stmt(level, 0))
            else:
                body += self.body(level, self.depth, maxn=2)
        if len(self.fsms) > 1 and not self.nested_placed:
            self.nested_placed = True
            body.append(self.fsm_stmt(PICK(d, ([1, 2])), 1))
        return {"env": self.env, "inputs": self.inputs, "dom": {str(k): v for k, v in self.dom.items()},
                "init": {str(k): v for k, v in self.init.items()}, "rl": self.rl, "fsms": self.fsms,
                "ongoing": {str(k): v for k, v in self.ongoing.items()}, "body": body}


@st.composite
def programs(draw, **kw):
    return ProgGen(draw, **kw).program()


@st.composite
def stimulus(draw, prog, n_events, domains=("sync",), resets=True):
    """Event list: ["in", {env index: value}] | ["tick", domain] | ["rst", domain, 0|1]."""
    env, inputs = prog["env"], prog["inputs"]
    evs = []
    for _ in range(n_events):
        k = PICK(draw, (["in", "in", "in", "tick", "tick", "tick", "rst"] if resets else ["in", "tick"]))
        if k == "in":
            chg = {}
            for i in inputs:
                if draw(INT(0, 5)) != 0:
                    chg[str(i)] = draw(value_of_shape(*env[i]))
            evs.append(["in", chg])
        elif k == "tick":
            evs.append(["tick", PICK(draw, (list(domains)))])
        else:
            evs.append(["rst", PICK(draw, (list(domains))), draw(INT(0, 1))])
    return evs


# ------------------------------------------------------------------------------------------ builder

class Built:
    pass


def build_program(prog, *, domains=None, module=None, sigs=None, extra=None, make_domains=True):
    """Descriptor -> (Module, signals...). `domains`: {name: ClockDomain kwargs}."""
    env = prog["env"]
    dom = {int(k): v for k, v in prog["dom"].items()}
    init = {int(k): v for k, v in prog["init"].items()}
    rl = set(prog.get("rl", []))
    ongoing = {int(k): v for k, v in prog.get("ongoing", {}).items()}
    b = Built()
    if sigs is None:
        sigs = []
        for k, (w, s) in enumerate(env):
            kw = {}
            if k in init:
                kw["init"] = init[k]
            if k in rl:
                kw["reset_less"] = True
            pre = "og" if k in ongoing else ("t" if k in dom else "i")
            sigs.append(Signal(B.mkshape(w, s), name=f"{pre}{k}", **kw))
    b.sigs = sigs
    m = module or Module()
    b.m = m
    b.cds = {}
    used = sorted({d for d in dom.values() if d != "comb"} | {f["dom"] for f in prog.get("fsms", [])})
    for dn in used:
        if not make_domains:
            continue              # the caller defines the domains elsewhere (e.g. at the top of a hierarchy)
        kw = (domains or {}).get(dn, {})
        cd = ClockDomain(dn, **kw)
        m.domains += cd
        b.cds[dn] = cd
    b.fsm_objs = {}

    def emit(stmts):
        for st_ in stmts:
            k = st_[0]
            if k == "assign":
                doms = {dom[t] for t in R.lhs_signals(st_[1])}
                (dn,) = doms
                lhs = B.expr(st_[1], sigs)
                m.d[dn] += lhs.eq(B.expr(st_[2], sigs))
            elif k == "if":
                for i, (c, body) in enumerate(st_[1]):
                    with (m.If if i == 0 else m.Elif)(B.expr(c, sigs)):
                        emit(body)
                if st_[2] is not None:
                    with m.Else():
                        emit(st_[2])
            elif k == "switch":
                with m.Switch(B.expr(st_[1], sigs)):
                    for pats, body in st_[2]:
                        if pats is None:
                            with m.Default():
                                emit(body)
                        else:
                            with m.Case(*pats):
                                emit(body)
            elif k == "fsm":
                fs = prog["fsms"][st_[1]]
                with m.FSM(init=fs.get("init"), domain=fs["dom"], name=fs.get("name", "fsm")) as fsm:
                    b.fsm_objs[st_[1]] = fsm
                    if fs.get("early_ongoing"):
                        for k2, (f2, name2) in ongoing.items():
                            if f2 == st_[1]:
                                fsm.ongoing(name2)
                    for name, body in st_[2]:
                        with m.State(name):
                            emit(body)
            elif k == "next":
                m.next = st_[2]
            elif extra is not None:
                extra(m, st_, sigs)
            else:
                raise ValueError(st_)
    with warnings.catch_warnings():
        warnings.simplefilter("ignore")
        emit(prog["body"])
        for k, (f, name) in ongoing.items():
            m.d.comb += sigs[k].eq(b.fsm_objs[f].ongoing(name))
    return b
