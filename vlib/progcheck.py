"""Runs a generated program + event list on the simulator and on the reference interpreter."""
import warnings
from amaranth.sim import Simulator
from vlib import refsem as R
from vlib.gen_prog import build_program
from vlib.runner import Mismatch
from vlib.reuse import elaborated_before


def run_case(prog, events, *, domains=None, observe=None):
    """Returns statistics dict; raises Mismatch at the first disagreement.
    domains: {name: ClockDomain kwargs (clk_edge, async_reset, reset_less)}."""
    domains = domains or {}
    b = build_program(prog, domains=domains)
    it = R.Interp(prog)
    env = prog["env"]
    watched = sorted(set(int(k) for k in prog["dom"]) | set(int(k) for k in prog.get("ongoing", {})))
    inputs = {i: 0 for i in prog["inputs"]}
    vals, fstate = it.initial(inputs)
    vals = it.settle(vals, fstate)
    rst = {dn: 0 for dn in b.cds}
    stats = {"changed": False, "events": 0}
    err = []

    def compare(sim, step, ev):
        for k in watched:
            got = sim.get(b.sigs[k])
            if got != vals[k]:
                err.append(dict(step=step, event=ev, signal=k, expected=vals[k], actual=got,
                                shape=env[k], domain=prog["dom"].get(str(k), "ongoing")))
                return False
        return True

    async def tb(sim):
        nonlocal vals, fstate
        if not compare(sim, -1, "initial"):
            return
        for step, ev in enumerate(events):
            before = list(vals)
            if ev[0] == "in":
                for k, v in ev[1].items():
                    sim.set(b.sigs[int(k)], v)
                    vals[int(k)] = v
                vals = it.settle(vals, fstate)
            elif ev[0] == "rst":
                dn = ev[1]
                cd = b.cds.get(dn)
                if cd is None or cd.rst is None:
                    continue
                old = rst[dn]
                rst[dn] = ev[2]
                sim.set(cd.rst, ev[2])
                if cd.async_reset and ev[2] == 1 and old == 0:
                    vals, fstate = it.async_reset(vals, fstate, dn)
            elif ev[0] == "tick":
                dn = ev[1]
                cd = b.cds.get(dn)
                if cd is None:
                    continue
                active = 1 if cd.clk_edge == "pos" else 0
                # go to the inactive level first (no-op if already there), then the active edge
                sim.set(cd.clk, 1 - active)
                if not compare(sim, step, ["pre-edge"] + ev):
                    return
                sim.set(cd.clk, active)
                r = bool(rst[dn]) and cd.rst is not None
                vals, fstate = it.edge(vals, fstate, dn, rst=r)
            stats["events"] += 1
            if vals != before:
                stats["changed"] = True
            if not compare(sim, step, ev):
                return

    with warnings.catch_warnings():
        warnings.simplefilter("ignore")
        if elaborated_before([prog, events], b.m):
            stats["elaborated_before"] = True
        sim = Simulator(b.m)
        sim.add_testbench(tb)
        sim.run()
    if err:
        raise Mismatch("state", **err[0])
    stats["multi_branch"] = sum(1 for s in it.branches.values() if len(s) >= 2)
    return stats
