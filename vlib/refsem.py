"""Reference semantics written from docs/guide.rst and the Value docstrings.

Operates on my own expression descriptors (see gen_expr.py) and on plain Python integers.
Shares no code with amaranth. A value is a Python int interpreted in a shape (width, signed).
"""


class OracleBug(Exception):
    """The oracle contradicted itself (exact result not representable in the reference shape)."""


# ------------------------------------------------------------------------------ shapes / ints

def fits(v, w, s):
    if s:
        return w >= 1 and -(1 << (w - 1)) <= v < (1 << (w - 1))
    return 0 <= v < (1 << w)


def wrap(v, w, s):
    """The unique value in the range of shape (w, s) congruent to v modulo 2**w."""
    if w == 0:
        return 0
    v %= (1 << w)
    if s and v >= (1 << (w - 1)):
        v -= (1 << w)
    return v


def bits(v, w):
    """Two's complement bit pattern of v as a non-negative int of w bits."""
    return v % (1 << w) if w > 0 else 0


def min_width(v, s, lo=0):
    """Smallest w >= lo such that v fits (w, s); found by search, not by closed form."""
    w = max(lo, 1 if s else 0)
    while not fits(v, w, s):
        w += 1
    return w


def const_shape(v):
    """Shape of `Const(v)`: minimal, signed iff negative, zero is one unsigned bit."""
    if v < 0:
        return (min_width(v, True), True)
    return (min_width(v, False, lo=1), False)


def unify(shapes):
    shapes = list(shapes)
    if not any(s for _, s in shapes):
        return (max([w for w, _ in shapes], default=0), False)
    w = 0
    for sw, ss in shapes:
        w = max(w, sw if ss else sw + 1)
    return (w, True)


def range_shape(r):
    elems = list(r)
    if not elems:
        return (0, False)
    s = any(e < 0 for e in elems)
    w = 1 if s else 0
    while not all(fits(e, w, s) for e in elems):
        w += 1
    return (w, s)


def enum_shape(values):
    """Shape of an enumeration: every member counts with the shape it has as a constant."""
    shapes = [const_shape(v) for v in values]
    return unify(shapes)


# ------------------------------------------------------------------------------ expressions
#
# Descriptor grammar (JSON lists):
#   ["sig", i]                     input signal i of the environment (shape env[i] = [w, s])
#   ["const", v, w, s]             Const(v, Shape(w, s))        ["int", v]   bare Python int
#   ["u", op, a]                   op in ~ neg abs bool any all xor as_s as_u
#   ["b", op, a, b]                op in + - * // % == != < <= > >= & | ^ << >>
#   ["shl"|"shr"|"rol"|"ror", a, n]          constant amount n (any int)
#   ["idx", a, i]  ["slice", a, start, stop]  ["sslice", a, start, stop, step]   (Python ints / None)
#   ["cat", [parts]]  ["rep", a, n]
#   ["bsel"|"wsel", a, off, w]     off: expression (unsigned) or ["int", k]
#   ["mux", sel, a, b]             ["arr", [elems], index]        ["match", a, [patterns]]

class Ill(Exception):
    """Descriptor is outside the documented input domain (generator bug if it ever escapes)."""


def shape_of(e, env):
    k = e[0]
    if k == "sig":
        w, s = env[e[1]]
        return (w, bool(s))
    if k == "const":
        return (e[2], bool(e[3]))
    if k == "int":
        return const_shape(e[1])
    if k == "u":
        op = e[1]
        w, s = shape_of(e[2], env)
        if op == "~":
            return (w, s)
        if op == "neg":
            return (w + 1, True)
        if op == "abs":
            return (w, False)
        if op in ("bool", "any", "all", "xor"):
            return (1, False)
        if op == "as_u":
            return (w, False)
        if op == "as_s":
            if w == 0:
                raise Ill("as_signed of zero width")
            return (w, True)
        raise Ill(op)
    if k == "b":
        op = e[1]
        (wa, sa), (wb, sb) = shape_of(e[2], env), shape_of(e[3], env)
        if op == "+":
            w, s = unify([(wa, sa), (wb, sb)])
            return (w + 1, s)
        if op == "-":
            w, s = unify([(wa, sa), (wb, sb)])
            return (w + 1, True)
        if op == "*":
            return (wa + wb, sa or sb)
        if op == "//":
            return (wa + (1 if sb else 0), sa or sb)
        if op == "%":
            return (wb, sb)
        if op in ("==", "!=", "<", "<=", ">", ">="):
            return (1, False)
        if op in ("&", "|", "^"):
            return unify([(wa, sa), (wb, sb)])
        if op == "<<":
            if sb:
                raise Ill("signed shift amount")
            return (wa + 2 ** wb - 1, sa)
        if op == ">>":
            if sb:
                raise Ill("signed shift amount")
            return (wa, sa)
        raise Ill(op)
    if k in ("shl", "shr"):
        w, s = shape_of(e[1], env)
        n = e[2] if k == "shl" else -e[2]
        if s:
            return (max(w + n, 1), True)
        return (max(w + n, 0), False)
    if k in ("rol", "ror"):
        return (shape_of(e[1], env)[0], False)
    if k == "idx":
        w, _ = shape_of(e[1], env)
        if e[2] not in range(-w, w):
            raise Ill("index out of bounds")
        return (1, False)
    if k == "slice":
        w, _ = shape_of(e[1], env)
        start, stop, _ = slice(e[2], e[3]).indices(w)
        if start > stop:
            raise Ill("reversed slice")
        return (stop - start, False)
    if k == "sslice":
        w, _ = shape_of(e[1], env)
        return (len(range(*slice(e[2], e[3], e[4]).indices(w))), False)
    if k == "cat":
        return (sum(shape_of(p, env)[0] for p in e[1]), False)
    if k == "rep":
        return (shape_of(e[1], env)[0] * e[2], False)
    if k in ("bsel", "wsel"):
        if e[2][0] != "int" and shape_of(e[2], env)[1]:
            raise Ill("signed offset")
        return (e[3], False)
    if k == "mux":
        return unify([shape_of(e[2], env), shape_of(e[3], env)])
    if k == "arr":
        return unify([shape_of(x, env) for x in e[1]])
    if k == "match":
        return (1, False)
    raise Ill(k)


def norm_pattern(p, w, s):
    """A pattern as (mask, value) on the w-bit pattern, or None if it can never match."""
    if isinstance(p, str):
        p = "".join(p.split())
        if len(p) != w:
            raise Ill("pattern width")
        mask = int("0" + "".join("0" if c == "-" else "1" for c in p), 2)
        val = int("0" + "".join("1" if c == "1" else "0" for c in p), 2)
        return (mask, val)
    if not fits(p, w, s):
        return None
    return ((1 << w) - 1, bits(p, w))


def matches(v, w, s, patterns):
    pat = bits(v, w)
    for p in patterns:
        mv = norm_pattern(p, w, s)
        if mv is not None and (pat & mv[0]) == mv[1]:
            return True
    return False


def evaluate(e, env, vals):
    """Exact mathematical value of the expression (a Python int) given input values."""
    v = _ev(e, env, vals)
    w, s = shape_of(e, env)
    if not fits(v, w, s):
        raise OracleBug(f"result {v} of {e} does not fit reference shape {(w, s)}")
    return v


def _ev(e, env, vals):
    k = e[0]
    if k == "sig":
        return vals[e[1]]
    if k == "const":
        return wrap(e[1], e[2], e[3])
    if k == "int":
        return e[1]
    if k == "u":
        op = e[1]
        a = evaluate(e[2], env, vals)
        w, s = shape_of(e[2], env)
        if op == "~":
            return ~a if s else ((1 << w) - 1 - a)
        if op == "neg":
            return -a
        if op == "abs":
            return abs(a)
        if op in ("bool", "any"):
            return int(a != 0)
        if op == "all":
            return int(bits(a, w) == (1 << w) - 1)
        if op == "xor":
            return bin(bits(a, w)).count("1") & 1
        if op == "as_u":
            return bits(a, w)
        if op == "as_s":
            return wrap(a, w, True)
    if k == "b":
        op = e[1]
        a = evaluate(e[2], env, vals)
        b = evaluate(e[3], env, vals)
        if op == "+": return a + b
        if op == "-": return a - b
        if op == "*": return a * b
        if op == "//": return 0 if b == 0 else a // b
        if op == "%": return 0 if b == 0 else a % b
        if op == "==": return int(a == b)
        if op == "!=": return int(a != b)
        if op == "<": return int(a < b)
        if op == "<=": return int(a <= b)
        if op == ">": return int(a > b)
        if op == ">=": return int(a >= b)
        if op == "&": return a & b
        if op == "|": return a | b
        if op == "^": return a ^ b
        if op == "<<": return a << b
        if op == ">>": return a >> b
    if k in ("shl", "shr"):
        a = evaluate(e[1], env, vals)
        w, s = shape_of(e[1], env)
        n = e[2] if k == "shl" else -e[2]
        if n >= 0:
            return a << n
        return a >> (-n)
    if k in ("rol", "ror"):
        a = evaluate(e[1], env, vals)
        w, _ = shape_of(e[1], env)
        if w == 0:
            return 0
        n = (e[2] if k == "rol" else -e[2]) % w
        p = bits(a, w)
        return ((p << n) | (p >> (w - n))) & ((1 << w) - 1)
    if k == "idx":
        a = evaluate(e[1], env, vals)
        w, _ = shape_of(e[1], env)
        return (bits(a, w) >> (e[2] % w)) & 1
    if k == "slice":
        a = evaluate(e[1], env, vals)
        w, _ = shape_of(e[1], env)
        start, stop, _ = slice(e[2], e[3]).indices(w)
        return (bits(a, w) >> start) & ((1 << (stop - start)) - 1)
    if k == "sslice":
        a = evaluate(e[1], env, vals)
        w, _ = shape_of(e[1], env)
        p = bits(a, w)
        out = 0
        for j, i in enumerate(range(*slice(e[2], e[3], e[4]).indices(w))):
            out |= ((p >> i) & 1) << j
        return out
    if k == "cat":
        out = off = 0
        for part in e[1]:
            w, _ = shape_of(part, env)
            out |= bits(evaluate(part, env, vals), w) << off
            off += w
        return out
    if k == "rep":
        w, _ = shape_of(e[1], env)
        p = bits(evaluate(e[1], env, vals), w)
        out = 0
        for i in range(e[2]):
            out |= p << (i * w)
        return out
    if k in ("bsel", "wsel"):
        a = evaluate(e[1], env, vals)       # mathematical value: >> sign-extends negatives,
        off = evaluate(e[2], env, vals)     # reads zero above an unsigned operand
        if k == "wsel":
            off *= e[3]
        return (a >> off) & ((1 << e[3]) - 1)
    if k == "mux":
        sel = evaluate(e[1], env, vals)
        return evaluate(e[2], env, vals) if sel != 0 else evaluate(e[3], env, vals)
    if k == "arr":
        i = evaluate(e[2], env, vals)
        if not 0 <= i < len(e[1]):
            raise Ill("array index out of range")
        return evaluate(e[1][i], env, vals)
    if k == "match":
        a = evaluate(e[1], env, vals)
        w, s = shape_of(e[1], env)
        return int(matches(a, w, s, e[2]))
    raise Ill(k)


def depth(e):
    k = e[0]
    if k in ("sig", "const", "int"):
        return 0
    subs = subexprs(e)
    return 1 + max([depth(x) for x in subs], default=0)


def subexprs(e):
    k = e[0]
    if k in ("sig", "const", "int"):
        return []
    if k == "u":
        return [e[2]]
    if k == "b":
        return [e[2], e[3]]
    if k in ("shl", "shr", "rol", "ror", "idx", "slice", "sslice", "rep"):
        return [e[1]]
    if k == "cat":
        return list(e[1])
    if k in ("bsel", "wsel"):
        return [e[1], e[2]]
    if k == "mux":
        return [e[1], e[2], e[3]]
    if k == "arr":
        return list(e[1]) + [e[2]]
    if k == "match":
        return [e[1]]
    raise Ill(k)


def ops_in(e, acc=None):
    acc = set() if acc is None else acc
    k = e[0]
    acc.add(k + ":" + e[1] if k in ("u", "b") else k)
    for x in subexprs(e):
        ops_in(x, acc)
    return acc


# ------------------------------------------------------------------------------ assignment targets
#
# An assignable target uses the same descriptor forms as expressions, restricted to
#   sig | slice | idx | cat | bsel | wsel | arr | u as_s/as_u | rol | ror
# `lhs_map` gives, for each bit position of the target expression, the (env index, bit) it
# addresses or None when the position falls outside every signal (such bits are dropped).

def lhs_map(L, env, vals):
    k = L[0]
    if k == "sig":
        return [(L[1], b) for b in range(env[L[1]][0])]
    if k == "u" and L[1] in ("as_s", "as_u"):
        return lhs_map(L[2], env, vals)
    if k == "idx":
        m = lhs_map(L[1], env, vals)
        return [m[L[2] % len(m)]]
    if k == "slice":
        m = lhs_map(L[1], env, vals)
        start, stop, _ = slice(L[2], L[3]).indices(len(m))
        return m[start:stop]
    if k == "sslice":
        m = lhs_map(L[1], env, vals)
        return [m[i] for i in range(*slice(L[2], L[3], L[4]).indices(len(m)))]
    if k == "cat":
        out = []
        for p in L[1]:
            out += lhs_map(p, env, vals)
        return out
    if k in ("rol", "ror"):
        m = lhs_map(L[1], env, vals)
        w = len(m)
        if w == 0:
            return []
        n = (L[2] if k == "rol" else -L[2]) % w
        # result bit i of rotate_left(n) is operand bit (i - n) mod w
        return [m[(i - n) % w] for i in range(w)]
    if k in ("bsel", "wsel"):
        m = lhs_map(L[1], env, vals)
        off = evaluate(L[2], env, vals)
        if k == "wsel":
            off *= L[3]
        return [m[off + i] if off + i < len(m) else None for i in range(L[3])]
    if k == "arr":
        i = evaluate(L[2], env, vals)
        if not 0 <= i < len(L[1]):
            raise Ill("array index out of range")
        m = lhs_map(L[1][i], env, vals)
        w, _ = shape_of(L, env)
        return (m + [None] * w)[:w]
    raise Ill(f"not assignable: {k}")


def lhs_signals(L, acc=None):
    """env indices of all signals that can be written through L."""
    acc = set() if acc is None else acc
    k = L[0]
    if k == "sig":
        acc.add(L[1])
    elif k == "u":
        lhs_signals(L[2], acc)
    elif k in ("idx", "slice", "sslice", "rol", "ror", "bsel", "wsel"):
        lhs_signals(L[1], acc)
    elif k == "cat":
        for p in L[1]:
            lhs_signals(p, acc)
    elif k == "arr":
        for p in L[1]:
            lhs_signals(p, acc)
    return acc


def assign_bits(L, env, vals, rhs_value, pending):
    """Apply `L = rhs_value` (an exact integer, already the mathematical RHS value) to `pending`
    (dict env-index -> bit pattern). Only addressed bits change; out-of-target bits are dropped."""
    m = lhs_map(L, env, vals)
    for pos, tb in enumerate(m):
        if tb is None:
            continue
        k, b = tb
        bit = (rhs_value >> pos) & 1       # Python >> on a negative int sign-extends: the RHS is
        cur = pending[k]                   # extended according to its own signedness
        pending[k] = (cur & ~(1 << b)) | (bit << b)


# ------------------------------------------------------------------------------ statements
#
#   ["assign", L, E]
#   ["if", [[E, body], ...], else_body | None]
#   ["switch", E, [[patterns | None, body], ...]]        None = Default, [] = Case() (never matches)
#   ["fsm", f, [[state, body], ...]]                     program["fsms"][f] = {"dom", "init", "states"}
#   ["next", f, state]
#   ["print", fmt...] / ["assert", ...]                  handled by the hooks argument
#
# program = {"env": [[w, s], ...], "dom": {env index: domain name}, "init": {env index: value},
#            "rl": [env indices that are reset-less], "fsms": [...], "ongoing": {env index: [f, state]},
#            "body": [...]}

class Interp:
    def __init__(self, prog):
        self.p = prog
        self.env = prog["env"]
        self.dom = {int(k): v for k, v in prog["dom"].items()}
        self.init = {int(k): v for k, v in prog["init"].items()}
        self.rl = set(prog.get("rl", []))
        self.fsms = prog.get("fsms", [])
        self.ongoing = {int(k): v for k, v in prog.get("ongoing", {}).items()}
        self.branches = {}          # id(node) -> set of branches taken (for the non-triviality rule)

    def initial(self, inputs):
        vals = [0] * len(self.env)
        for k, v in inputs.items():
            vals[k] = v
        for k, v in self.init.items():
            vals[k] = v
        fstate = [self.fsm_init(f) for f in range(len(self.fsms))]
        return vals, fstate

    def fsm_init(self, f):
        fs = self.fsms[f]
        return fs["init"] if fs.get("init") is not None else fs["states"][0]

    def _pat(self, k):
        w, s = self.env[k]
        return lambda v: bits(v, w)

    def run(self, vals, fstate, domain, hooks=None):
        """One evaluation of all statements of `domain` reading `vals`/`fstate`.
        Returns (new values for the domain's targets, new fsm states for FSMs of that domain)."""
        pending = {}
        for k, d in self.dom.items():
            if d == domain:
                w, s = self.env[k]
                base = self.init[k] if domain == "comb" else vals[k]
                pending[k] = bits(base, w)
        nstate = list(fstate)
        self._body(self.p["body"], vals, fstate, domain, pending, nstate, hooks)
        out = {}
        for k, pat in pending.items():
            w, s = self.env[k]
            out[k] = wrap(pat, w, s)
        return out, nstate

    def _body(self, body, vals, fstate, domain, pending, nstate, hooks):
        for st in body:
            k = st[0]
            if k == "assign":
                tg = lhs_signals(st[1])
                doms = {self.dom[t] for t in tg}
                if doms == {domain}:
                    assign_bits(st[1], self.env, vals, evaluate(st[2], self.env, vals), pending)
                elif domain in doms:
                    raise Ill("assignment mixes domains")
            elif k == "if":
                taken = None
                for i, (cond, sub) in enumerate(st[1]):
                    if evaluate(cond, self.env, vals) != 0:
                        taken = i
                        self._body(sub, vals, fstate, domain, pending, nstate, hooks)
                        break
                else:
                    if st[2] is not None:
                        taken = "else"
                        self._body(st[2], vals, fstate, domain, pending, nstate, hooks)
                self.branches.setdefault(id(st), set()).add(taken)
            elif k == "switch":
                v = evaluate(st[1], self.env, vals)
                w, s = shape_of(st[1], self.env)
                taken = None
                for i, (pats, sub) in enumerate(st[2]):
                    if pats is None or matches(v, w, s, pats):
                        taken = i
                        self._body(sub, vals, fstate, domain, pending, nstate, hooks)
                        break
                self.branches.setdefault(id(st), set()).add(taken)
            elif k == "fsm":
                f = st[1]
                for name, sub in st[2]:
                    if name == fstate[f]:
                        self.branches.setdefault(id(st), set()).add(name)
                        self._body(sub, vals, fstate, domain, pending, nstate, hooks)
                        break
            elif k == "next":
                if self.fsms[st[1]]["dom"] == domain:
                    nstate[st[1]] = st[2]
            else:
                if hooks is not None:
                    hooks(st, vals, domain)

    def settle(self, vals, fstate):
        """Combinational fixed point (designs are acyclic by construction)."""
        vals = list(vals)
        for _ in range(12):
            for k, (f, name) in self.ongoing.items():
                vals[k] = int(fstate[f] == name)
            new, _ = self.run(vals, fstate, "comb")
            changed = False
            for k, v in new.items():
                if vals[k] != v:
                    vals[k] = v
                    changed = True
            if not changed:
                return vals
        raise OracleBug("combinational logic of an acyclic program did not settle")

    def edge(self, vals, fstate, domain, rst=False, hooks=None):
        """Active clock edge of `domain` on settled `vals`. Returns settled post-edge (vals, fstate)."""
        new, nstate = self.run(vals, fstate, domain, hooks)
        vals = list(vals)
        for k, v in new.items():
            vals[k] = self.init[k] if (rst and k not in self.rl) else v
        if rst:
            for f, fs in enumerate(self.fsms):
                if fs["dom"] == domain:
                    nstate[f] = self.fsm_init(f)
        return self.settle(vals, nstate), nstate

    def async_reset(self, vals, fstate, domain):
        """Rising edge of an asynchronous reset: registers of the domain load their inits."""
        vals = list(vals)
        nstate = list(fstate)
        for k, d in self.dom.items():
            if d == domain and k not in self.rl:
                vals[k] = self.init[k]
        for f, fs in enumerate(self.fsms):
            if fs["dom"] == domain:
                nstate[f] = self.fsm_init(f)
        return self.settle(vals, nstate), nstate
