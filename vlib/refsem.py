"""Reference semantics written from docs/guide.rst and the Value docstrings.

Operates on my own expression descriptors (see gen_expr.py) and on plain Python integers.
Shares no code with amaranth. A value is a Python int interpreted in a shape (width, signed).
"""


class OracleBug(Exception):
    """The oracle contradicted itself (exact result not representable in the reference shape)."""


# ------------------------------------------------------------------------------ shapes / ints

def fits(v, w, s):
    if s:
        return w >= 1 and -(1 << (w - 1)) <= v < (1 << (w - 1))
    return 0 <= v < (1 << w)


def wrap(v, w, s):
    """The unique value in the range of shape (w, s) congruent to v modulo 2**w."""
    if w == 0:
        return 0
    v %= (1 << w)
    if s and v >= (1 << (w - 1)):
        v -= (1 << w)
    return v


def bits(v, w):
    """Two's complement bit pattern of v as a non-negative int of w bits."""
    return v % (1 << w) if w > 0 else 0


def min_width(v, s, lo=0):
    """Smallest w >= lo such that v fits (w, s); found by search, not by closed form."""
    w = max(lo, 1 if s else 0)
    while not fits(v, w, s):
        w += 1
    return w


def const_shape(v):
    """Shape of `Const(v)`: minimal, signed iff negative, zero is one unsigned bit."""
    if v < 0:
        return (min_width(v, True), True)
    return (min_width(v, False, lo=1), False)


def unify(shapes):
    shapes = list(shapes)
    if not any(s for _, s in shapes):
        return (max([w for w, _ in shapes], default=0), False)
    w = 0
    for sw, ss in shapes:
        w = max(w, sw if ss else sw + 1)
    return (w, True)


def range_shape(r):
    elems = list(r)
    if not elems:
        return (0, False)
    s = any(e < 0 for e in elems)
    w = 1 if s else 0
    while not all(fits(e, w, s) for e in elems):
        w += 1
    return (w, s)


def enum_shape(values):
    """Shape of an enumeration: every member counts with the shape it has as a constant."""
    shapes = [const_shape(v) for v in values]
    return unify(shapes)
