"""Designs that were elaborated before they are simulated.

Converting a design and then simulating it (or simulating it twice) elaborates the same objects more than once; the
hardware must come out the same every time.  `elaborated_before(case, design)` elaborates `design` once for every
`every`-th case, chosen by the canonical hash of the case so that a replay of the case takes the same branch."""
from amaranth.hdl import Fragment
from vlib.runner import case_hash

STATS = {"elaborated_before": 0, "fresh": 0}


def elaborated_before(case, design, every=4):
    if int.from_bytes(case_hash(case)[:4], "big") % every:
        STATS["fresh"] += 1
        return False
    Fragment.get(design, None)
    STATS["elaborated_before"] += 1
    return True
