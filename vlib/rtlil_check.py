"""Structural validity predicate over a parsed RTLIL design (C07). Returns a list of problems (empty = well-formed).

`foreign` describes instances of cells that are not defined in the document and are not `$` built-ins:
    {type name (with backslash): {"ports": {port name: "i" | "o" | "io"}}}
Without an entry, a foreign cell is reported as an unknown cell type.
"""
from vlib import rtlil_read as RR

# port directions and width parameters of the built-in cells amaranth emits: port -> (dir, width spec)
# width spec: parameter name, int, or a callable(params) -> int
def _p(name):
    return lambda P: P[name]

UNARY = {"\\A": ("i", _p("\\A_WIDTH")), "\\Y": ("o", _p("\\Y_WIDTH"))}
BINARY = {"\\A": ("i", _p("\\A_WIDTH")), "\\B": ("i", _p("\\B_WIDTH")), "\\Y": ("o", _p("\\Y_WIDTH"))}
BUILTIN = {}
for t in ("$not", "$neg", "$reduce_and", "$reduce_or", "$reduce_xor", "$reduce_bool"):
    BUILTIN[t] = (UNARY, {"\\A_SIGNED", "\\A_WIDTH", "\\Y_WIDTH"})
for t in ("$and", "$or", "$xor", "$add", "$sub", "$mul", "$divfloor", "$modfloor", "$eq", "$ne", "$lt", "$le", "$gt", "$ge",
          "$shl", "$shr", "$sshr", "$shift"):
    BUILTIN[t] = (BINARY, {"\\A_SIGNED", "\\B_SIGNED", "\\A_WIDTH", "\\B_WIDTH", "\\Y_WIDTH"})
W = _p("\\WIDTH")
BUILTIN["$mux"] = ({"\\A": ("i", W), "\\B": ("i", W), "\\S": ("i", lambda P: 1), "\\Y": ("o", W)}, {"\\WIDTH"})
BUILTIN["$tribuf"] = ({"\\A": ("i", W), "\\EN": ("i", lambda P: 1), "\\Y": ("t", W)}, {"\\WIDTH"})
BUILTIN["$dff"] = ({"\\D": ("i", W), "\\CLK": ("i", lambda P: 1), "\\Q": ("o", W)}, {"\\WIDTH", "\\CLK_POLARITY"})
BUILTIN["$adff"] = ({"\\D": ("i", W), "\\CLK": ("i", lambda P: 1), "\\ARST": ("i", lambda P: 1), "\\Q": ("o", W)},
                    {"\\WIDTH", "\\CLK_POLARITY", "\\ARST_POLARITY", "\\ARST_VALUE"})
BUILTIN["$meminit_v2"] = ({"\\ADDR": ("i", _p("\\ABITS")), "\\DATA": ("i", lambda P: P["\\WIDTH"] * P["\\WORDS"]),
                           "\\EN": ("i", W)}, {"\\MEMID", "\\ABITS", "\\WIDTH", "\\WORDS", "\\PRIORITY"})
BUILTIN["$memwr_v2"] = ({"\\ADDR": ("i", _p("\\ABITS")), "\\DATA": ("i", W), "\\EN": ("i", W), "\\CLK": ("i", lambda P: 1)},
                         {"\\MEMID", "\\ABITS", "\\WIDTH", "\\CLK_ENABLE", "\\CLK_POLARITY", "\\PORTID", "\\PRIORITY_MASK"})
BUILTIN["$memrd_v2"] = ({"\\ADDR": ("i", _p("\\ABITS")), "\\DATA": ("o", W), "\\EN": ("i", lambda P: 1), "\\CLK": ("i", lambda P: 1),
                          "\\ARST": ("i", lambda P: 1), "\\SRST": ("i", lambda P: 1)},
                         {"\\MEMID", "\\ABITS", "\\WIDTH", "\\CLK_ENABLE", "\\CLK_POLARITY", "\\TRANSPARENCY_MASK",
                          "\\COLLISION_X_MASK", "\\ARST_VALUE", "\\SRST_VALUE", "\\INIT_VALUE", "\\CE_OVER_SRST"})
BUILTIN["$print"] = ({"\\EN": ("i", lambda P: 1), "\\ARGS": ("i", _p("\\ARGS_WIDTH")), "\\TRG": ("i", _p("\\TRG_WIDTH"))},
                      {"\\FORMAT", "\\ARGS_WIDTH", "\\PRIORITY", "\\TRG_ENABLE", "\\TRG_WIDTH", "\\TRG_POLARITY"})
BUILTIN["$check"] = ({"\\EN": ("i", lambda P: 1), "\\ARGS": ("i", _p("\\ARGS_WIDTH")), "\\TRG": ("i", _p("\\TRG_WIDTH")),
                       "\\A": ("i", lambda P: 1)},
                      {"\\FORMAT", "\\ARGS_WIDTH", "\\PRIORITY", "\\TRG_ENABLE", "\\TRG_WIDTH", "\\TRG_POLARITY", "\\FLAVOR"})
BUILTIN["$anyconst"] = ({"\\Y": ("o", W)}, {"\\WIDTH"})
BUILTIN["$anyseq"] = ({"\\Y": ("o", W)}, {"\\WIDTH"})
BUILTIN["$initstate"] = ({"\\Y": ("o", lambda P: 1)}, set())


def param_int(cell, name):
    kind = cell.params[name]
    if kind[0] == "int":
        return kind[1]
    if kind[0] == "bits":
        if any(c not in "01" for c in kind[1]):
            return None
        v = int(kind[1] or "0", 2)
        if cell.param_signed.get(name) and kind[1] and kind[1][0] == "1":
            v -= 1 << len(kind[1])
        return v
    return None


def check(design, foreign=None, partly_used_pads=()):
    """partly_used_pads: names of top-level pad wires of which only some bits are used by buffers (their other bits have
    no driver, which is not a fault of the document)."""
    foreign = foreign or {}
    problems = []
    def bad(msg):
        problems.append(msg)

    tops = [m for m in design.modules.values() if "\\top" in m.attrs]
    if len(tops) != 1:
        bad(f"{len(tops)} modules carry the top attribute")
    instantiated = set()
    for mod in design.modules.values():
        where = f"module {mod.name}"
        # names unique within the module
        seen = set()
        for nm in mod.order:
            if nm in seen:
                bad(f"{where}: name {nm} declared twice")
            seen.add(nm)
        # port indices unique and dense
        ids = sorted(w.port_id for w in mod.wires.values() if w.port_kind)
        if ids != list(range(len(ids))):
            bad(f"{where}: port indices {ids} are not unique and dense from 0")
        drivers = {}        # (wire, bit) -> list of driver descriptions
        def drive(bits, who, allow_const=False):
            for b in bits:
                if b[0] == "w":
                    drivers.setdefault((b[1], b[2]), []).append(who)
                elif not allow_const:
                    bad(f"{where}: {who} drives a constant")
        for w in mod.wires.values():
            if w.port_kind == "input":
                drive([("w", w.name, k) for k in range(w.width)], "module input")
        inout_bits = {(w.name, k) for w in mod.wires.values() if w.port_kind == "inout" for k in range(w.width)}
        # connects
        for lhs, rhs, n in mod.connects:
            if len(lhs) != len(rhs):
                bad(f"{where} line {n}: connect widths differ ({len(lhs)} vs {len(rhs)})")
            drive(lhs, f"connect at line {n}")
        # processes
        for proc in mod.processes:
            assigned = set()
            def walk(body):
                for node in body:
                    if node[0] == "assign":
                        _, lhs, rhs, n = node
                        if len(lhs) != len(rhs):
                            bad(f"{where} line {n}: assign widths differ ({len(lhs)} vs {len(rhs)})")
                        for b in lhs:
                            if b[0] != "w":
                                bad(f"{where} line {n}: assignment to a constant")
                            else:
                                assigned.add((b[1], b[2]))
                    else:
                        _, sig, cases, n = node
                        ndefault = 0
                        for pats, sub in cases:
                            for p in pats:
                                if len(p) != len(sig):
                                    bad(f"{where} line {n}: case pattern width {len(p)} != switch width {len(sig)}")
                            walk(sub)
            walk(proc.body)
            for key in assigned:
                drivers.setdefault(key, []).append(f"process {proc.name}")
        # cells
        for cell in mod.cells:
            cw = f"{where} cell {cell.name} ({cell.type})"
            if cell.type in BUILTIN:
                ports, need = BUILTIN[cell.type]
                missing = need - set(cell.params)
                if missing:
                    bad(f"{cw}: missing parameters {sorted(missing)}")
                    continue
                P = {}
                for k in cell.params:
                    P[k] = param_int(cell, k)
                if set(cell.conns) != set(ports):
                    bad(f"{cw}: ports {sorted(cell.conns)} != expected {sorted(ports)}")
                    continue
                for pn, (d, wspec) in ports.items():
                    want = wspec(P)
                    if want is None or len(cell.conns[pn]) != want:
                        bad(f"{cw}: port {pn} is {len(cell.conns[pn])} bits wide, parameters say {want}")
                    if d == "o":
                        drive(cell.conns[pn], f"{cell.type} {cell.name} port {pn}")
                    elif d == "t":
                        for b in cell.conns[pn]:
                            if b[0] != "w" or (b[1], b[2]) not in inout_bits:
                                # a tristate buffer may also drive an output-only pad wire
                                drive([b], f"{cell.type} {cell.name} port {pn}")
                if "\\MEMID" in cell.params:
                    mid = cell.params["\\MEMID"]
                    if mid[0] != "str" or mid[1] not in mod.memories:
                        bad(f"{cw}: MEMID {mid!r} does not name a memory of this module")
                    else:
                        mem = mod.memories[mid[1]]
                        if P.get("\\WIDTH") != mem.width:
                            bad(f"{cw}: WIDTH {P.get(chr(92) + 'WIDTH')} != memory width {mem.width}")
            elif cell.type in design.modules:
                sub = design.modules[cell.type]
                instantiated.add(cell.type)
                subports = {w.name: w for w in sub.wires.values() if w.port_kind}
                if set(cell.conns) != set(subports):
                    bad(f"{cw}: connects {sorted(cell.conns)} but the module declares ports {sorted(subports)}")
                for pn, bits in cell.conns.items():
                    if pn not in subports:
                        continue
                    w = subports[pn]
                    if len(bits) != w.width:
                        bad(f"{cw}: port {pn} connected to {len(bits)} bits, declared {w.width}")
                    if w.port_kind == "output":
                        drive(bits, f"submodule {cell.name} output {pn}")
                    elif w.port_kind == "inout":
                        pass
                if cell.params:
                    bad(f"{cw}: parameters on an instance of a module defined in the document")
            elif cell.type in foreign:
                spec = foreign[cell.type]["ports"]
                for pn, bits in cell.conns.items():
                    d = spec.get(pn)
                    if d is None:
                        bad(f"{cw}: unexpected port {pn}")
                    elif d == "o":
                        drive(bits, f"instance {cell.name} output {pn}")
            else:
                bad(f"{cw}: unknown cell type")
        # write ports of one memory are numbered 0..n-1 by PORTID, and the per-write-port masks of its ports
        # (transparency / collision on read ports, priority on write ports) have one bit for each of them
        by_mem = {}
        for cell in mod.cells:
            mid = cell.params.get("\\MEMID")
            if cell.type in ("$memwr_v2", "$memrd_v2") and mid and mid[0] == "str":
                by_mem.setdefault(mid[1], {"$memwr_v2": [], "$memrd_v2": []})[cell.type].append(cell)
        for mid, ports in by_mem.items():
            n = len(ports["$memwr_v2"])
            ids = sorted(param_int(c, "\\PORTID") if "\\PORTID" in c.params else -1 for c in ports["$memwr_v2"])
            if ids != list(range(n)):
                bad(f"{where}: write ports of memory {mid} have PORTIDs {ids}, expected 0..{n - 1}")
            for c in ports["$memwr_v2"] + ports["$memrd_v2"]:
                for pn in ("\\TRANSPARENCY_MASK", "\\COLLISION_X_MASK", "\\PRIORITY_MASK"):
                    v = c.params.get(pn)
                    if v is not None and v[0] == "bits" and len(v[1]) != max(n, 1) and len(v[1]) != n:
                        bad(f"{where} cell {c.name}: {pn[1:]} is {len(v[1])} bits wide, memory {mid} has {n} write ports")
        # exactly one driver per wire bit (bidirectional port bits excepted)
        for w in mod.wires.values():
            for k in range(w.width):
                if (w.name, k) in inout_bits:
                    continue
                ds = drivers.get((w.name, k), [])
                if len(ds) == 0 and w.name in partly_used_pads and w.port_kind:
                    continue
                if len(ds) != 1:
                    bad(f"{where}: wire {w.name} bit {k} has {len(ds)} drivers {ds[:3]}")
                elif w.port_kind == "input" and ds != ["module input"]:
                    bad(f"{where}: input {w.name} bit {k} is driven from inside")
        for (name, k), ds in drivers.items():
            w = mod.wires.get(name)
            if w is not None and w.port_kind == "input" and len(ds) > 1:
                bad(f"{where}: input {name} bit {k} is also driven by {ds[1:]}")
    for name, mod in design.modules.items():
        if name not in instantiated and "\\top" not in mod.attrs:
            bad(f"module {name} is defined but never instantiated")
    return problems
