"""An independent evaluator for RTLIL designs as emitted by amaranth (C04, C11): hierarchical, event driven in the
same sense as the harness drives the simulator (set inputs -> settle -> clocked cells that saw their active edge
capture the values from just before the event -> asynchronous resets -> settle), with per-bit undef tracking.

Cell semantics follow the published Yosys cell library (this is the trusted base):
  $not $neg $reduce_* : operand extended to Y_WIDTH by A_SIGNED
  $and $or $xor $add $sub $mul : both operands extended to Y_WIDTH (sign extension iff both *_SIGNED)
  $eq $ne $lt $le $gt $ge : compared at max(A_WIDTH, B_WIDTH), signed iff both signed
  $shl $shr : logical; $sshr arithmetic when A_SIGNED; $shift : right shift of A (extended by A_SIGNED) by unsigned B
  $divfloor $modfloor : floor semantics, division by zero -> undef
  $mux, $tribuf, $dff, $adff (level sensitive ARST), $meminit_v2, $memwr_v2, $memrd_v2 (INIT_VALUE x)
  processes: assignments in order, a switch takes its first matching case ('-' = don't care, no patterns = default)
$print / $check / $anyconst / $anyseq / $initstate and foreign cells are not evaluated (their outputs are undef).
"""
from vlib import rtlil_read as RR


class EvalError(Exception):
    pass


class CombLoop(EvalError):
    pass


def _pint(cell, name, default=None):
    if name not in cell.params:
        if default is None:
            raise EvalError(f"cell {cell.name}: missing parameter {name}")
        return default
    k = cell.params[name]
    if k[0] == "int":
        return k[1]
    if k[0] == "bits":
        v = int(k[1].replace("x", "0").replace("z", "0") or "0", 2)
        return v
    raise EvalError(f"cell {cell.name}: parameter {name} is not a number")


def _pbits(cell, name):
    k = cell.params[name]
    if k[0] == "bits":
        return k[1]
    if k[0] == "int":
        return format(k[1] & 0xFFFFFFFF, "032b")
    raise EvalError(f"cell {cell.name}: parameter {name} is not a bit vector")


class Mem:
    def __init__(self, width, size):
        self.width, self.size = width, size
        self.rows = [0] * size
        self.rowx = [(1 << width) - 1] * size        # undefined until initialised


class Evaluator:
    def __init__(self, design, top=None):
        self.design = design
        tops = [m for m in design.modules.values() if "\\top" in m.attrs]
        self.top = design.modules[top] if top else tops[0]
        self.val, self.x = [], []
        self.comb = []           # callables
        self.seq = []            # dicts describing clocked elements
        self.mems = {}           # (prefix, memid) -> Mem
        self.wires = {}          # hierarchical wire name tuple -> list of net ids
        self.arst = []
        self._inst(self.top, ())
        self.inputs = {w.name: self.wires[(w.name,)] for w in self.top.wires.values() if w.port_kind == "input"}
        self.inouts = {w.name: self.wires[(w.name,)] for w in self.top.wires.values() if w.port_kind == "inout"}
        self.outputs = {w.name: self.wires[(w.name,)] for w in self.top.wires.values() if w.port_kind == "output"}
        self.masked_compares = 0
        self.settle()

    # ---------------------------------------------------------------- elaboration
    def _new(self, n, v=0, x=True):
        base = len(self.val)
        self.val += [v] * n
        self.x += [x] * n
        return list(range(base, base + n))

    def _bits(self, spec, env):
        out = []
        for b in spec:
            if b[0] == "c":
                out.append(("c", b[1]))
            else:
                out.append(("n", env[b[1]][b[2]]))
        return out

    def _inst(self, mod, prefix, port_nets=None):
        env = {}
        for w in mod.wires.values():
            if port_nets is not None and w.name in port_nets:
                env[w.name] = port_nets[w.name]
            else:
                env[w.name] = self._new(w.width)
            self.wires[prefix + (w.name,)] = env[w.name]
        # power-on values of registers come from the `init` attribute of the wire they drive
        init = {}
        for w in mod.wires.values():
            a = w.attrs.get("\\init")
            if a is not None and a[0] == "bits":
                init[w.name] = a[1]
            elif a is not None and a[0] == "int":
                init[w.name] = format(a[1] & ((1 << max(w.width, 1)) - 1), f"0{max(w.width, 1)}b")
        for name, m in mod.memories.items():
            self.mems[prefix + (name,)] = Mem(m.width, m.size)
        for lhs, rhs, n in mod.connects:
            self._add_conn(self._bits(lhs, env), self._bits(rhs, env))
        for proc in mod.processes:
            self._add_process(proc, env)
        for cell in mod.cells:
            if cell.type in self.design.modules:
                sub = self.design.modules[cell.type]
                pn = {}
                for w in sub.wires.values():
                    if w.port_kind:
                        outer = self._bits(cell.conns[w.name], env)
                        if w.port_kind == "inout" and all(b[0] == "n" for b in outer):
                            # a bidirectional pad passed down the hierarchy is one and the same set of nets
                            pn[w.name] = [b[1] for b in outer]
                            continue
                        nets = self._new(w.width)
                        pn[w.name] = nets
                        if w.port_kind == "input":
                            self._add_conn([("n", k) for k in nets], outer)
                        elif w.port_kind == "output":
                            self._add_conn(outer, [("n", k) for k in nets])
                        else:
                            # bidirectional pad: alias both ways is not needed for evaluation of amaranth designs
                            self._add_conn([("n", k) for k in nets], outer)
                self._inst(sub, prefix + (cell.name,), pn)
            else:
                self._add_cell(cell, env, prefix, init)

    def _add_conn(self, lhs, rhs):
        if len(lhs) != len(rhs):
            raise EvalError("connect width mismatch")
        def run():
            ch = False
            for l, r in zip(lhs, rhs):
                if l[0] != "n":
                    continue
                v, x = self._rd(r)
                ch |= self._wr(l[1], v, x)
            return ch
        self.comb.append(run)

    # ---------------------------------------------------------------- bit access
    def _rd(self, b):
        if b[0] == "c":
            if b[1] in "01":
                return int(b[1]), False
            return 0, True
        return self.val[b[1]], self.x[b[1]]

    def _wr(self, net, v, x):
        if x:
            v = 0
        if self.val[net] != v or self.x[net] != x:
            self.val[net], self.x[net] = v, x
            return True
        return False

    def _word(self, bits):
        v = xm = 0
        for i, b in enumerate(bits):
            bv, bx = self._rd(b)
            v |= bv << i
            xm |= int(bx) << i
        return v, xm

    def _wrword(self, bits, v, xm):
        ch = False
        for i, b in enumerate(bits):
            if b[0] == "n":
                ch |= self._wr(b[1], (v >> i) & 1, bool((xm >> i) & 1))
        return ch

    # ---------------------------------------------------------------- processes
    def _add_process(self, proc, env):
        def resolve(body):
            out = []
            for node in body:
                if node[0] == "assign":
                    out.append(("assign", self._bits(node[1], env), self._bits(node[2], env)))
                else:
                    out.append(("switch", self._bits(node[1], env), [(pats, resolve(sub)) for pats, sub in node[2]]))
            return out
        body = resolve(proc.body)

        def lhs_nets(body, acc):
            for node in body:
                if node[0] == "assign":
                    acc.update(b[1] for b in node[1] if b[0] == "n")
                else:
                    for _, sub in node[2]:
                        lhs_nets(sub, acc)
            return acc
        targets = sorted(lhs_nets(body, set()))

        def run():
            pend = {}
            def ex(body):
                # RTLIL semantics: the assignments of a (case) body are its actions and take effect before its
                # nested switches, wherever they are written
                for node in body:
                    if node[0] == "assign":
                        for l, r in zip(node[1], node[2]):
                            if l[0] == "n":
                                pend[l[1]] = self._rd(r)
                for node in body:
                    if node[0] == "assign":
                        continue
                    else:
                        sel = [self._rd(b) for b in node[1]]
                        taken = None
                        unknown = False
                        for pats, sub in node[2]:
                            if not pats:
                                taken = sub; break
                            hit = False
                            for p in pats:
                                ok = True
                                for i, ch in enumerate(reversed(p)):
                                    if ch == "-":
                                        continue
                                    v, x = sel[i]
                                    if x:
                                        unknown = True; ok = False; break
                                    if v != int(ch):
                                        ok = False; break
                                if ok:
                                    hit = True; break
                            if unknown:
                                break
                            if hit:
                                taken = sub; break
                        if unknown:
                            for n_ in lhs_nets([node], set()):
                                pend[n_] = (0, True)
                        elif taken is not None:
                            ex(taken)
            ex(body)
            ch = False
            for n_ in targets:
                if n_ in pend:
                    ch |= self._wr(n_, *pend[n_])
            return ch
        self.comb.append(run)

    # ---------------------------------------------------------------- cells
    def _ext(self, v, xm, w, signed, to):
        """Extend a w-bit word (value, xmask) to `to` bits."""
        if to <= w:
            m = (1 << to) - 1
            return v & m, xm & m
        if signed and w > 0:
            sb, sx = (v >> (w - 1)) & 1, (xm >> (w - 1)) & 1
            ext = ((1 << (to - w)) - 1) << w
            if sb: v |= ext
            if sx: xm |= ext
        return v, xm

    def _add_cell(self, cell, env, prefix, init):
        t = cell.type
        C = {k: self._bits(v, env) for k, v in cell.conns.items()}
        full = lambda w: (1 << w) - 1

        def sval(v, w):
            return v - (1 << w) if w and (v >> (w - 1)) & 1 else v

        if t in ("$not", "$neg", "$reduce_and", "$reduce_or", "$reduce_xor", "$reduce_bool"):
            aw, yw, asg = _pint(cell, "\\A_WIDTH"), _pint(cell, "\\Y_WIDTH"), bool(_pint(cell, "\\A_SIGNED"))
            def run():
                a, ax = self._word(C["\\A"])
                if t == "$not":
                    a, ax = self._ext(a, ax, aw, asg, yw)
                    return self._wrword(C["\\Y"], ~a & full(yw), ax)
                if t == "$neg":
                    a, ax = self._ext(a, ax, aw, asg, yw)
                    return self._wrword(C["\\Y"], (-a) & full(yw), full(yw) if ax else 0)
                if t == "$reduce_and":
                    if (~a & ~ax) & full(aw): r, rx = 0, 0          # a known zero decides
                    else: r, rx = (1, 0) if not ax else (0, 1)
                elif t in ("$reduce_or", "$reduce_bool"):
                    if a & ~ax & full(aw): r, rx = 1, 0
                    else: r, rx = (0, 0) if not ax else (0, 1)
                else:
                    r, rx = (bin(a).count("1") & 1, 0) if not ax else (0, 1)
                return self._wrword(C["\\Y"], r, rx | (0 if yw <= 1 else 0))
            self.comb.append(run)
        elif t in ("$and", "$or", "$xor", "$add", "$sub", "$mul", "$divfloor", "$modfloor"):
            aw, bw, yw = _pint(cell, "\\A_WIDTH"), _pint(cell, "\\B_WIDTH"), _pint(cell, "\\Y_WIDTH")
            sg = bool(_pint(cell, "\\A_SIGNED")) and bool(_pint(cell, "\\B_SIGNED"))
            def run():
                a, ax = self._word(C["\\A"]); b, bx = self._word(C["\\B"])
                if t in ("$divfloor", "$modfloor"):
                    w = max(aw, bw, yw)
                    a, ax = self._ext(a, ax, aw, sg, w); b, bx = self._ext(b, bx, bw, sg, w)
                    if ax or bx or b == 0:
                        return self._wrword(C["\\Y"], 0, full(yw))
                    if sg:
                        a, b = sval(a, w), sval(b, w)
                    r = a // b if t == "$divfloor" else a % b
                    return self._wrword(C["\\Y"], r & full(yw), 0)
                a, ax = self._ext(a, ax, aw, sg, yw); b, bx = self._ext(b, bx, bw, sg, yw)
                if t == "$and":
                    r = a & b; rx = (ax | bx) & ~((~a & ~ax) | (~b & ~bx))
                elif t == "$or":
                    r = a | b; rx = (ax | bx) & ~((a & ~ax) | (b & ~bx))
                elif t == "$xor":
                    r = a ^ b; rx = ax | bx
                else:
                    if ax or bx:
                        return self._wrword(C["\\Y"], 0, full(yw))
                    r = {"$add": a + b, "$sub": a - b, "$mul": a * b}[t]; rx = 0
                return self._wrword(C["\\Y"], r & full(yw), rx & full(yw))
            self.comb.append(run)
        elif t in ("$eq", "$ne", "$lt", "$le", "$gt", "$ge"):
            aw, bw, yw = _pint(cell, "\\A_WIDTH"), _pint(cell, "\\B_WIDTH"), _pint(cell, "\\Y_WIDTH")
            sg = bool(_pint(cell, "\\A_SIGNED")) and bool(_pint(cell, "\\B_SIGNED"))
            def run():
                a, ax = self._word(C["\\A"]); b, bx = self._word(C["\\B"])
                w = max(aw, bw)
                a, ax = self._ext(a, ax, aw, sg, w); b, bx = self._ext(b, bx, bw, sg, w)
                if ax or bx:
                    return self._wrword(C["\\Y"], 0, 1)
                if sg:
                    a, b = sval(a, w), sval(b, w)
                r = {"$eq": a == b, "$ne": a != b, "$lt": a < b, "$le": a <= b, "$gt": a > b, "$ge": a >= b}[t]
                return self._wrword(C["\\Y"], int(r), 0)
            self.comb.append(run)
        elif t in ("$shl", "$shr", "$sshr", "$shift"):
            aw, bw, yw = _pint(cell, "\\A_WIDTH"), _pint(cell, "\\B_WIDTH"), _pint(cell, "\\Y_WIDTH")
            asg, bsg = bool(_pint(cell, "\\A_SIGNED")), bool(_pint(cell, "\\B_SIGNED"))
            def run():
                a, ax = self._word(C["\\A"]); b, bx = self._word(C["\\B"])
                if ax or bx:
                    return self._wrword(C["\\Y"], 0, full(yw))
                if bsg:
                    raise EvalError("signed shift amounts are not emitted by amaranth")
                if t == "$shl":
                    av, _ = self._ext(a, 0, aw, asg, max(yw, aw))
                    r = av << b
                elif t == "$shr":
                    av, _ = self._ext(a, 0, aw, False, max(yw, aw))
                    r = av >> b
                elif t == "$sshr":
                    r = (sval(a, aw) if asg else a) >> b
                else:   # $shift, unsigned B: shift right, bits beyond A are 0 (sign bit when A_SIGNED)
                    r = (sval(a, aw) if asg else a) >> b
                return self._wrword(C["\\Y"], r & full(yw), 0)
            self.comb.append(run)
        elif t == "$mux":
            w = _pint(cell, "\\WIDTH")
            def run():
                s, sx = self._rd(C["\\S"][0])
                a, ax = self._word(C["\\A"]); b, bx = self._word(C["\\B"])
                if sx:
                    same = ~(a ^ b) & ~ax & ~bx
                    return self._wrword(C["\\Y"], a & same, full(w) & ~same)
                return self._wrword(C["\\Y"], b if s else a, bx if s else ax)
            self.comb.append(run)
        elif t == "$tribuf":
            def run():
                en, ex = self._rd(C["\\EN"][0])
                a, ax = self._word(C["\\A"])
                w = len(C["\\Y"])
                if ex or not en:
                    return self._wrword(C["\\Y"], 0, full(w))          # high impedance reads as undefined
                return self._wrword(C["\\Y"], a, ax)
            self.comb.append(run)
        elif t in ("$dff", "$adff"):
            w = _pint(cell, "\\WIDTH")
            q = C["\\Q"]
            # initial value from the init attribute of the driven wire
            spec = cell.conns["\\Q"]
            for i, b in enumerate(spec):
                if b[0] == "w" and b[1] in init:
                    ch = init[b[1]][::-1][b[2]] if b[2] < len(init[b[1]]) else "x"
                    self._wr(q[i][1], int(ch) if ch in "01" else 0, ch not in "01")
            el = {"kind": "ff", "d": C["\\D"], "q": q, "clk": C["\\CLK"][0], "pol": _pint(cell, "\\CLK_POLARITY"), "name": cell.name}
            if t == "$adff":
                el["arst"] = C["\\ARST"][0]
                el["arst_pol"] = _pint(cell, "\\ARST_POLARITY")
                el["arst_val"] = int(_pbits(cell, "\\ARST_VALUE"), 2)
                self.arst.append(el)
            self.seq.append(el)
        elif t == "$meminit_v2":
            mem = self.mems[prefix + (cell.params["\\MEMID"][1],)]
            words, w = _pint(cell, "\\WORDS"), _pint(cell, "\\WIDTH")
            data, dx = self._word(C["\\DATA"])
            base, _ = self._word(C["\\ADDR"])
            for i in range(words):
                if base + i < mem.size:
                    mem.rows[base + i] = (data >> (i * w)) & full(w)
                    mem.rowx[base + i] = (dx >> (i * w)) & full(w)
        elif t == "$memwr_v2":
            mem = self.mems[prefix + (cell.params["\\MEMID"][1],)]
            self.seq.append({"kind": "wr", "mem": mem, "addr": C["\\ADDR"], "data": C["\\DATA"], "en": C["\\EN"],
                             "clk": C["\\CLK"][0], "pol": _pint(cell, "\\CLK_POLARITY"), "portid": _pint(cell, "\\PORTID"),
                             "name": cell.name})
        elif t == "$memrd_v2":
            mem = self.mems[prefix + (cell.params["\\MEMID"][1],)]
            w = _pint(cell, "\\WIDTH")
            if not _pint(cell, "\\CLK_ENABLE"):
                def run():
                    a, ax = self._word(C["\\ADDR"])
                    if ax or a >= mem.size:
                        return self._wrword(C["\\DATA"], 0, full(w))
                    return self._wrword(C["\\DATA"], mem.rows[a], mem.rowx[a])
                self.comb.append(run)
                self.async_reads = getattr(self, "async_reads", []) + [run]
            else:
                self.seq.append({"kind": "rd", "mem": mem, "addr": C["\\ADDR"], "data": C["\\DATA"], "en": C["\\EN"][0],
                                 "clk": C["\\CLK"][0], "pol": _pint(cell, "\\CLK_POLARITY"),
                                 "tmask": int(_pbits(cell, "\\TRANSPARENCY_MASK") or "0", 2), "name": cell.name})
        elif t in ("$print", "$check", "$anyconst", "$anyseq", "$initstate") or not t.startswith("$"):
            pass        # outputs (if any) stay undefined
        else:
            raise EvalError(f"unsupported cell type {t}")

    # ---------------------------------------------------------------- evaluation
    def settle(self):
        for _ in range(len(self.comb) + 8):
            changed = False
            for f in self.comb:
                if f():
                    changed = True
            if not changed:
                return
        raise CombLoop("combinational logic did not settle")

    def _clk_levels(self):
        return [self._rd(el["clk"]) for el in self.seq]

    def set_inputs(self, values):
        """values: {top-level input wire name: int}. Applies them in one instant and processes the consequences."""
        before_clk = self._clk_levels()
        snap_val, snap_x = list(self.val), list(self.x)       # valuation from just before the event
        for name, v in values.items():
            if name in self.inputs:
                nets = self.inputs[name]
            elif name in self.inouts:
                nets = self.inouts[name]
            else:
                raise EvalError(f"no top-level input named {name}")
            for i, n_ in enumerate(nets):
                self._wr(n_, (v >> i) & 1, False)
        self.settle()
        after_clk = self._clk_levels()
        fired = []
        for el, b, a in zip(self.seq, before_clk, after_clk):
            if b[1] or a[1]:
                continue
            active = 1 if el["pol"] else 0
            if b[0] != a[0] and a[0] == active:
                fired.append(el)
        if fired:
            cur_val, cur_x = self.val, self.x
            # capture from the valuation before the event
            self.val, self.x = snap_val, snap_x
            caps = []
            writes = [el for el in fired if el["kind"] == "wr"]
            wcap = []
            for el in writes:
                a, ax = self._word(el["addr"]); d, dx = self._word(el["data"]); e, ex = self._word(el["en"])
                wcap.append((el, a, ax, d, dx, e, ex))
            for el in fired:
                if el["kind"] == "ff":
                    caps.append((el, self._word(el["d"])))
                elif el["kind"] == "rd":
                    en, enx = self._rd(el["en"])
                    a, ax = self._word(el["addr"])
                    mem = el["mem"]
                    w = mem.width
                    if enx:
                        caps.append((el, (0, (1 << w) - 1)))
                    elif en:
                        if ax or a >= mem.size:
                            caps.append((el, (0, (1 << w) - 1)))
                        else:
                            d, dx = mem.rows[a], mem.rowx[a]
                            for (wel, wa, wax, wd, wdx, we, wex) in wcap:
                                if wel["mem"] is not mem:
                                    continue
                                if wax:
                                    dx |= we | wex
                                elif wa == a:
                                    if wel["clk"] != el["clk"]:
                                        dx |= we | wex      # written on another clock in the same instant: undefined
                                    elif (el["tmask"] >> wel["portid"]) & 1:
                                        d = (d & ~we) | (wd & we); dx = (dx & ~we) | (wdx & we) | wex
                                    else:
                                        pass        # not transparent: the old contents are read
                            caps.append((el, (d, dx)))
            self.val, self.x = cur_val, cur_x
            for el, (v, xm) in caps:
                tgt = el["q"] if el["kind"] == "ff" else el["data"]
                self._wrword(tgt, v, xm)
            touched = {}
            for (wel, wa, wax, wd, wdx, we, wex) in wcap:
                mem = wel["mem"]
                if wax:
                    for r in range(mem.size):
                        mem.rowx[r] |= we | wex
                    continue
                if wa >= mem.size:
                    continue
                key = (id(mem), wa)
                dup = touched.get(key, 0) & (we | wex)
                mem.rows[wa] = (mem.rows[wa] & ~we) | (wd & we)
                mem.rowx[wa] = (mem.rowx[wa] & ~we) | (wdx & we) | wex | dup
                touched[key] = touched.get(key, 0) | we | wex
        self._apply_arst()
        self.settle()
        self._apply_arst()

    def _apply_arst(self):
        for _ in range(4):
            ch = False
            for el in self.arst:
                v, x = self._rd(el["arst"])
                if not x and v == (1 if el["arst_pol"] else 0):
                    ch |= self._wrword(el["q"], el["arst_val"], 0)
            if not ch:
                return
            self.settle()

    def get(self, path):
        """(value, undef mask) of a wire given as hierarchical name tuple, e.g. ('\\\\sub', '\\\\sig') or ('\\\\sig',)."""
        nets = self.wires[tuple(path)]
        return self._word([("n", k) for k in nets])

    def mem_row(self, path, row):
        m = self.mems[tuple(path)]
        return m.rows[row], m.rowx[row]

    def set_mem_row(self, path, row, value):
        m = self.mems[tuple(path)]
        m.rows[row], m.rowx[row] = value, 0
        self.settle()
