"""An independent reader for the RTLIL text format (written from the format description, shares no code with
amaranth.back.rtlil): text -> Design object.

Sigspecs are lists of bits, least significant first; a bit is ('c', '0'|'1'|'x'|'z'|'-') or ('w', wire name, index).
Anything outside the grammar raises RTLILSyntaxError with the line number.
"""
import re


class RTLILSyntaxError(Exception):
    pass


class Wire:
    def __init__(self, name, width, signed, port_kind, port_id, attrs, line):
        self.name, self.width, self.signed = name, width, signed
        self.port_kind, self.port_id, self.attrs, self.line = port_kind, port_id, attrs, line


class Memory:
    def __init__(self, name, width, size, attrs):
        self.name, self.width, self.size, self.attrs = name, width, size, attrs


class Cell:
    def __init__(self, type_, name, attrs, line):
        self.type, self.name, self.attrs, self.line = type_, name, attrs, line
        self.params = {}        # name -> (kind, value) kind in 'int','bits','str','real'; plus signed flag
        self.param_signed = {}
        self.conns = {}         # port -> sigspec


class Process:
    def __init__(self, name, attrs, line):
        self.name, self.attrs, self.line = name, attrs, line
        self.body = []          # ('assign', lhs, rhs) | ('switch', sig, [(patterns, body)])


class Module:
    def __init__(self, name, attrs):
        self.name, self.attrs = name, attrs
        self.wires, self.memories, self.cells, self.processes, self.connects = {}, {}, [], [], []
        self.order = []         # every declared name in order (for uniqueness checks)


class Design:
    def __init__(self):
        self.modules = {}
        self.autoidx = None


_TOKEN = re.compile(r'\s*(?:("(?:[^"\\]|\\.)*")|(\[[^\]]*\])|([{}])|([^\s{}"]+))')
_CONST = re.compile(r"^(\d+)'([01xz\-]*)$")
_INT = re.compile(r"^-?\d+$")
_ID = re.compile(r"^[\\$]\S+$")


def tokenize(line, lineno):
    out, pos = [], 0
    line = line.rstrip("\n")
    while pos < len(line):
        if line[pos:].strip() == "":
            break
        m = _TOKEN.match(line, pos)
        if not m:
            raise RTLILSyntaxError(f"line {lineno}: cannot tokenize {line[pos:]!r}")
        out.append(m.group(1) or m.group(2) or m.group(3) or m.group(4))
        pos = m.end()
    return out


def unescape(s, lineno):
    assert s[0] == '"' and s[-1] == '"'
    body, out, i = s[1:-1], [], 0
    while i < len(body):
        ch = body[i]
        if ch == "\\":
            i += 1
            if i >= len(body):
                raise RTLILSyntaxError(f"line {lineno}: dangling backslash in string")
            e = body[i]
            if e == "n": out.append("\n")
            elif e == "t": out.append("\t")
            elif e == "r": out.append("\r")
            elif e in '"\\': out.append(e)
            elif e in "01234567":
                j = i
                while j < len(body) and j < i + 3 and body[j] in "01234567":
                    j += 1
                out.append(chr(int(body[i:j], 8))); i = j - 1
            else:
                raise RTLILSyntaxError(f"line {lineno}: unknown escape \\{e}")
        else:
            out.append(ch)
        i += 1
    return "".join(out)


def parse_const(tok, lineno):
    """-> (kind, value[, width]) for a constant token."""
    if tok.startswith('"'):
        return ("str", unescape(tok, lineno))
    m = _CONST.match(tok)
    if m:
        w, bits = int(m.group(1)), m.group(2)
        # like the reference reader: fewer digits are extended (with x/z if that is the leading digit, else 0),
        # surplus leading digits are dropped
        if len(bits) < w:
            pad = bits[0] if bits[:1] in ("x", "z") else ("x" if not bits else "0")
            bits = pad * (w - len(bits)) + bits
        elif len(bits) > w:
            bits = bits[len(bits) - w:]
        return ("bits", bits, w)
    if _INT.match(tok):
        return ("int", int(tok))
    raise RTLILSyntaxError(f"line {lineno}: bad constant {tok!r}")


class SigParser:
    def __init__(self, toks, lineno, widths):
        self.toks, self.i, self.lineno, self.widths = toks, 0, lineno, widths

    def done(self):
        return self.i >= len(self.toks)

    def sigspec(self):
        """Parse one sigspec starting at the current token."""
        if self.done():
            raise RTLILSyntaxError(f"line {self.lineno}: sigspec expected")
        t = self.toks[self.i]
        if t == "{":
            self.i += 1
            parts = []
            while True:
                if self.done():
                    raise RTLILSyntaxError(f"line {self.lineno}: unterminated {{")
                if self.toks[self.i] == "}":
                    self.i += 1
                    break
                parts.append(self.sigspec())
            bits = []
            for p in reversed(parts):       # the first listed part is the most significant
                bits += p
            return bits
        if _ID.match(t):
            self.i += 1
            name = t
            if name not in self.widths:
                raise UnknownWire(name, self.lineno)
            w = self.widths[name]
            lo, hi = 0, w - 1
            if not self.done() and self.toks[self.i].startswith("["):
                sl = self.toks[self.i][1:-1].strip()
                self.i += 1
                if ":" in sl:
                    a, b = sl.split(":")
                    hi, lo = int(a), int(b)
                else:
                    hi = lo = int(sl)
                if not (0 <= lo <= hi < w):
                    if not (hi == lo - 1):        # empty slice is never emitted; anything else is out of bounds
                        raise SliceOutOfBounds(name, w, hi, lo, self.lineno)
            return [("w", name, k) for k in range(lo, hi + 1)]
        c = parse_const(t, self.lineno)
        self.i += 1
        if c[0] == "bits":
            return [("c", ch) for ch in reversed(c[1])]
        if c[0] == "int":
            v = c[1] & 0xFFFFFFFF
            return [("c", str((v >> k) & 1)) for k in range(32)]
        raise RTLILSyntaxError(f"line {self.lineno}: string used as a signal")


class UnknownWire(Exception):
    def __init__(self, name, lineno):
        super().__init__(f"line {lineno}: reference to undeclared wire {name}")
        self.name, self.lineno = name, lineno


class SliceOutOfBounds(Exception):
    def __init__(self, name, width, hi, lo, lineno):
        super().__init__(f"line {lineno}: slice [{hi}:{lo}] out of bounds of {name} (width {width})")


def parse(text):
    """Two passes per module: declarations first (wires/memories may be referenced before... no: RTLIL requires
    declaration before use, and amaranth emits that way; a forward reference is reported as UnknownWire)."""
    design = Design()
    lines = text.split("\n")
    pos = 0
    pending_attrs = {}
    mod = None
    stack = []          # process / switch / case nesting

    def err(msg, n):
        raise RTLILSyntaxError(f"line {n}: {msg}")

    n = 0
    cur_cell = None
    cur_proc = None
    body_stack = None
    while n < len(lines):
        raw = lines[n]
        n += 1
        toks = tokenize(raw, n)
        if not toks or toks[0].startswith("#"):
            continue
        kw = toks[0]
        if kw == "autoidx":
            design.autoidx = int(toks[1]); continue
        if kw == "attribute":
            if len(toks) != 3 or not _ID.match(toks[1]):
                err("malformed attribute", n)
            if toks[1] in pending_attrs:
                err(f"attribute {toks[1]} given twice", n)
            pending_attrs[toks[1]] = parse_const(toks[2], n)
            continue
        if mod is None:
            if kw == "module":
                if len(toks) != 2 or not _ID.match(toks[1]):
                    err("malformed module header", n)
                if toks[1] in design.modules:
                    err(f"module {toks[1]} defined twice", n)
                mod = Module(toks[1], pending_attrs)
                pending_attrs = {}
                design.modules[mod.name] = mod
                widths = {}
                continue
            err(f"unexpected {kw!r} outside a module", n)
        # ---- inside a cell
        if cur_cell is not None:
            if kw == "parameter":
                t = toks[1:]
                signed = real = False
                if t and t[0] == "signed": signed, t = True, t[1:]
                if t and t[0] == "real": real, t = True, t[1:]
                if len(t) != 2 or not _ID.match(t[0]):
                    err("malformed parameter", n)
                if t[0] in cur_cell.params:
                    err(f"parameter {t[0]} given twice", n)
                c = parse_const(t[1], n)
                cur_cell.params[t[0]] = ("real", float(c[1])) if real else c
                cur_cell.param_signed[t[0]] = signed
            elif kw == "connect":
                if len(toks) < 3 or not _ID.match(toks[1]):
                    err("malformed cell connection", n)
                if toks[1] in cur_cell.conns:
                    err(f"port {toks[1]} connected twice", n)
                sp = SigParser(toks[2:], n, widths)
                cur_cell.conns[toks[1]] = sp.sigspec()
                if not sp.done():
                    err("trailing tokens after cell connection", n)
            elif kw == "end":
                cur_cell = None
            else:
                err(f"unexpected {kw!r} in cell", n)
            continue
        # ---- inside a process
        if cur_proc is not None:
            if kw == "assign":
                sp = SigParser(toks[1:], n, widths)
                lhs = sp.sigspec(); rhs = sp.sigspec()
                if not sp.done():
                    err("trailing tokens after assign", n)
                body_stack[-1][1].append(("assign", lhs, rhs, n))
            elif kw == "switch":
                sp = SigParser(toks[1:], n, widths)
                sig = sp.sigspec()
                if not sp.done():
                    err("trailing tokens after switch", n)
                node = ("switch", sig, [], n)
                body_stack[-1][1].append(node)
                body_stack.append(("switch", node[2]))
            elif kw == "case":
                # close a previous case body of the same switch
                if body_stack[-1][0] == "case":
                    body_stack.pop()
                if body_stack[-1][0] != "switch":
                    err("case outside switch", n)
                pats = []
                rest = " ".join(toks[1:])
                for p in [x.strip() for x in rest.split(",")] if rest.strip() else []:
                    c = parse_const(p, n)
                    if c[0] != "bits":
                        err("case pattern must be a sized constant", n)
                    pats.append(c[1])
                body = []
                body_stack[-1][1].append((pats, body))
                body_stack.append(("case", body))
            elif kw == "end":
                if body_stack[-1][0] == "case":
                    body_stack.pop()
                top = body_stack.pop()
                if top[0] == "proc":
                    cur_proc = None
                    body_stack = None
            else:
                err(f"unexpected {kw!r} in process", n)
            continue
        # ---- module level
        if kw == "wire":
            t = toks[1:]
            width, signed, kind, pid = 1, False, None, None
            while len(t) > 1:
                if t[0] == "width": width = int(t[1]); t = t[2:]
                elif t[0] == "signed": signed = True; t = t[1:]
                elif t[0] in ("input", "output", "inout"): kind = t[0]; pid = int(t[1]); t = t[2:]
                elif t[0] in ("upto", "offset"): err("unsupported wire option", n)
                else: err(f"unknown wire option {t[0]!r}", n)
            if len(t) != 1 or not _ID.match(t[0]):
                err("malformed wire declaration", n)
            name = t[0]
            mod.order.append(name)
            if name in widths:
                err(f"name {name} declared twice in module {mod.name}", n)
            widths[name] = width
            mod.wires[name] = Wire(name, width, signed, kind, pid, pending_attrs, n)
            pending_attrs = {}
        elif kw == "memory":
            t = toks[1:]
            width = size = None
            while len(t) > 1:
                if t[0] == "width": width = int(t[1]); t = t[2:]
                elif t[0] == "size": size = int(t[1]); t = t[2:]
                else: err(f"unknown memory option {t[0]!r}", n)
            name = t[0]
            mod.order.append(name)
            if name in mod.memories or name in widths:
                err(f"name {name} declared twice in module {mod.name}", n)
            mod.memories[name] = Memory(name, width, size, pending_attrs)
            pending_attrs = {}
        elif kw == "cell":
            if len(toks) != 3:
                err("malformed cell header", n)
            cur_cell = Cell(toks[1], toks[2], pending_attrs, n)
            pending_attrs = {}
            mod.order.append(toks[2])
            mod.cells.append(cur_cell)
        elif kw == "process":
            if len(toks) != 2:
                err("malformed process header", n)
            cur_proc = Process(toks[1], pending_attrs, n)
            pending_attrs = {}
            mod.order.append(toks[1])
            mod.processes.append(cur_proc)
            body_stack = [("proc", cur_proc.body)]
        elif kw == "connect":
            sp = SigParser(toks[1:], n, widths)
            lhs = sp.sigspec(); rhs = sp.sigspec()
            if not sp.done():
                err("trailing tokens after connect", n)
            mod.connects.append((lhs, rhs, n))
        elif kw == "end":
            if pending_attrs:
                err("attributes before end of module", n)
            mod = None
        else:
            err(f"unexpected {kw!r} in module", n)
    if mod is not None or cur_cell is not None or cur_proc is not None:
        raise RTLILSyntaxError("unexpected end of file")
    return design
