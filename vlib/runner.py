"""Check runner: tiers, seeds, sharding, evidence, VIOLATION / KNOWN-FINDING lines, exit codes.

Usage (through /verif/check):
    ./check C07 quick|thorough          run the check for a property
    ./check C07 --replay FILE           re-run one saved failing case, bypassing Hypothesis

Exit codes: 0 = property held on everything explored, 1 = violation (a line
"VIOLATION property=<id> replay=<path>" is printed), 2 = harness error / inconclusive.

A check module (vchecks/cNN.py) exports:
    PID, LEVEL, RULE, ASSUMPTIONS      evidence metadata
    parts(tier) -> list[Part]          the generated sub-checks
    KNOWN = {finding_id: predicate(part, case, mismatch)}   (optional)
    REQUIRED = [counter keys that must be non-zero]         (optional)
    QUICK_SHARDS / THOROUGH_SHARDS                          (optional)
"""
import os, sys, json, time, hashlib, traceback, importlib, collections, multiprocessing, warnings

HERE = os.path.dirname(os.path.dirname(os.path.abspath(__file__)))
REPO = os.environ.get("VERIF_REPO", "/repo")


class Mismatch(Exception):
    """The implementation disagreed with the oracle on a generated case."""
    def __init__(self, kind, /, **detail):       # positional-only: a detail may itself be called "kind"
        self.kind = kind
        self.detail = detail
        super().__init__(f"{kind}: {detail}")


class HarnessError(Exception):
    """Something is wrong with the checking machinery itself (exit 2, never a VIOLATION)."""


class Inconclusive(Exception):
    pass


def canon(obj):
    return json.dumps(obj, sort_keys=True, separators=(",", ":"), default=_json_default)


def _json_default(o):
    if isinstance(o, (set, frozenset)):
        return sorted(o)
    if isinstance(o, tuple):
        return list(o)
    if isinstance(o, bytes):
        return o.hex()
    return repr(o)


def case_hash(obj):
    return hashlib.sha1(canon(obj).encode()).digest()[:8]


class Part:
    """One generated sub-check.

    kind="hyp":   strategy + body(ctx, case); n = number of Hypothesis examples *per shard*.
    kind="enum":  cases(ctx) yields cases (the callee shards by ctx.shard/ctx.nshards); body(ctx, case).
    kind="custom": fn(ctx) does everything itself (must call ctx.note / raise Mismatch via ctx.fail).
    """
    def __init__(self, name, kind, *, strategy=None, body=None, n=0, cases=None, fn=None,
                 shards=None, exhaustive=False):
        self.name, self.kind = name, kind
        self.strategy, self.body, self.n = strategy, body, n
        self.cases, self.fn = cases, fn
        self.shards = shards
        self.exhaustive = exhaustive


class Ctx:
    def __init__(self, mod, tier, seed, shard, nshards):
        self.mod, self.tier, self.seed = mod, tier, seed
        self.shard, self.nshards = shard, nshards
        self.counters = collections.Counter()
        self.evaluations = 0
        self.hashes = set()
        self.distinct_extra = 0      # distinct-by-construction cases (exhaustive enumerations)
        self.samples = []
        self.known_hits = collections.Counter()
        self.violations = []          # list of dicts
        self.part = None
        self.extra = {}
        self._last_fail = None
        self._nsamp = collections.Counter()

    # ---- bookkeeping used by check bodies ------------------------------------------------
    def tally(self, *keys, n=1):
        for k in keys:
            self.counters[k] += n

    def note(self, case, nontrivial, *keys, evals=1):
        """Record one executed case."""
        self.evaluations += evals
        if nontrivial:
            self.hashes.add(case_hash(case))
        for k in keys:
            self.counters[k] += 1
        if nontrivial and self._nsamp[self.part] < 2 and (self._nsamp[self.part] == 0 or self.evaluations % 7 == 0):
            self._nsamp[self.part] += 1
            self.samples.append({"part": self.part, "case": case})

    def note_bulk(self, evals, distinct_nontrivial, sample=None, *keys):
        """Record an enumerated batch whose members are distinct by construction."""
        self.evaluations += evals
        self.distinct_extra += distinct_nontrivial
        for k in keys:
            self.counters[k] += 1
        if sample is not None and self._nsamp[self.part] < 2:
            self._nsamp[self.part] += 1
            self.samples.append({"part": self.part, "case": sample})

    def sub_seed(self, salt=0):
        h = hashlib.sha1(f"{self.seed}/{self.shard}/{self.part}/{salt}".encode()).digest()
        return int.from_bytes(h[:4], "big")

    # ---- failure handling ------------------------------------------------------------------
    def classify(self, case, mm):
        """Returns the id of a *listed* known finding matching this mismatch, or None."""
        known = getattr(self.mod, "KNOWN", {})
        listed = _listed_findings(self.mod.PID)
        for fid, pred in known.items():
            if fid in listed and listed[fid].get("status") == "known":
                try:
                    if pred(self.part, case, mm):
                        return fid
                except Exception:
                    pass
        return None

    def guarded(self, body, case):
        """Run body(ctx, case); known findings are counted and swallowed, others re-raised."""
        try:
            body(self, case)
        except Mismatch as mm:
            fid = self.classify(case, mm)
            if fid is not None:
                self.known_hits[fid] += 1
                return
            self._last_fail = (case, mm)
            raise
        except (HarnessError, Inconclusive):
            raise
        except Exception as e:
            mm = _exception_to_mismatch(e)
            if mm is None:
                raise
            fid = self.classify(case, mm)
            if fid is not None:
                self.known_hits[fid] += 1
                return
            self._last_fail = (case, mm)
            raise mm from e

    def record_violation(self, case, mm):
        self.violations.append({"part": self.part, "case": case, "kind": mm.kind,
                                "detail": json.loads(canon(mm.detail))})


def _exception_to_mismatch(e):
    """An exception raised from inside amaranth (or simulator-generated code) on a case that the
    grammar declares valid is a failure of the implementation; anything else is a harness bug."""
    tb = traceback.extract_tb(e.__traceback__)
    if not tb:
        return None
    inner = tb[-1].filename
    repo_pkg = os.path.join(REPO, "amaranth")
    if inner.startswith(repo_pkg) or inner == "<string>" or "amaranth_pysim_" in inner:
        frames = [f"{os.path.relpath(f.filename, REPO) if f.filename.startswith(REPO) else f.filename}:{f.lineno}:{f.name}"
                  for f in tb[-4:]]
        return Mismatch("crash", exc=type(e).__name__, msg=str(e)[:500], frames=frames)
    return None


_FINDINGS_CACHE = {}
def _listed_findings(pid):
    if pid not in _FINDINGS_CACHE:
        path = os.path.join(HERE, "known_findings.json")
        out = {}
        if os.path.exists(path):
            with open(path) as f:
                data = json.load(f)
            for ent in data.get("findings", []):
                if pid in ent.get("properties", [ent.get("property")]):
                    out[ent["id"]] = ent
        _FINDINGS_CACHE[pid] = out
    return _FINDINGS_CACHE[pid]


# ---------------------------------------------------------------------------------------------

def _run_hyp(ctx, part):
    import hypothesis
    from hypothesis import settings, HealthCheck, Phase, given
    phases = [Phase.explicit, Phase.generate] if ctx.tier == "quick" else \
             [Phase.explicit, Phase.generate, Phase.shrink]
    st = settings(max_examples=part.n, database=None, deadline=None, derandomize=False,
                  report_multiple_bugs=False, phases=phases, print_blob=False,
                  suppress_health_check=list(HealthCheck),
                  verbosity=hypothesis.Verbosity.quiet)

    def test(case):
        ctx.guarded(part.body, case)

    test = given(part.strategy)(test)
    test = hypothesis.seed(ctx.sub_seed())(test)
    test = st(test)
    ctx._last_fail = None
    try:
        test()
    except Mismatch as mm:
        case, mm2 = ctx._last_fail if ctx._last_fail else (None, mm)
        ctx.record_violation(case, mm2)
    except (HarnessError, Inconclusive):
        raise
    except hypothesis.errors.HypothesisException as e:
        # Flaky / Unsatisfiable etc: problems of the harness, never of amaranth.
        if ctx._last_fail is not None and isinstance(e, hypothesis.errors.Flaky):
            raise HarnessError(f"flaky failure in {part.name}: {e}")
        raise HarnessError(f"hypothesis error in {part.name}: {type(e).__name__}: {e}")


def _run_enum(ctx, part):
    for case in part.cases(ctx):
        try:
            ctx.guarded(part.body, case)
        except Mismatch as mm:
            ctx.record_violation(case, mm)
            return


def _worker(args):
    modname, tier, seed, shard, nshards, only = args
    warnings.simplefilter("ignore")
    t0 = time.time()
    try:
        mod = importlib.import_module(modname)
        ctx = Ctx(mod, tier, seed, shard, nshards)
        for part in mod.parts(tier):
            if only and part.name not in only:
                continue
            if part.shards is not None and shard >= part.shards:
                continue
            ctx.part = part.name
            if part.kind == "hyp":
                _run_hyp(ctx, part)
            elif part.kind == "enum":
                _run_enum(ctx, part)
            elif part.kind == "custom":
                try:
                    part.fn(ctx)
                except Mismatch as mm:
                    case = ctx._last_fail[0] if ctx._last_fail else mm.detail.get("case")
                    ctx.record_violation(case, mm)
            else:
                raise HarnessError(f"bad part kind {part.kind}")
            ctx.counters[f"part:{part.name}"] += 0
        return {"ok": True, "counters": dict(ctx.counters), "evaluations": ctx.evaluations,
                "hashes": ctx.hashes, "distinct_extra": ctx.distinct_extra, "samples": ctx.samples,
                "known_hits": dict(ctx.known_hits), "violations": ctx.violations,
                "extra": ctx.extra, "wall": time.time() - t0}
    except Inconclusive as e:
        return {"ok": False, "inconclusive": True, "error": str(e)}
    except BaseException as e:
        return {"ok": False, "error": "".join(traceback.format_exception(type(e), e, e.__traceback__))}


def write_replay(pid, viol, idx):
    d = os.path.join(HERE, "replays", pid)
    os.makedirs(d, exist_ok=True)
    h = hashlib.sha1(canon(viol).encode()).hexdigest()[:12]
    path = os.path.join(d, f"{viol['part']}-{h}.json")
    with open(path, "w") as f:
        json.dump({"property": pid, **viol}, f, indent=1, default=_json_default)
    return path


def run_check(pid, tier, seed, only=None):
    modname = f"vchecks.{pid.lower()}"
    mod = importlib.import_module(modname)
    t0 = time.time()
    nshards = int(os.environ.get("VERIF_JOBS", 0)) or \
        (getattr(mod, "QUICK_SHARDS", 4) if tier == "quick" else getattr(mod, "THOROUGH_SHARDS", 16))
    args = [(modname, tier, seed, s, nshards, only) for s in range(nshards)]
    if nshards == 1:
        results = [_worker(args[0])]
    else:
        mp = multiprocessing.get_context("fork")
        # Safety net only (budgets are case counts): a shard that does not come back -- e.g. because a changed
        # simulator never converges -- makes the run inconclusive (exit 2), never a violation.
        limit = int(os.environ.get("VERIF_TIMEOUT", 0)) or (1500 if tier == "quick" else 6 * 3600)
        pool = mp.Pool(nshards)
        try:
            results = pool.map_async(_worker, args, chunksize=1).get(timeout=limit)
        except multiprocessing.TimeoutError:
            pool.terminate()
            print(f"HARNESS-ERROR property={pid} inconclusive: a shard exceeded the safety timeout of {limit}s")
            return 2
        finally:
            pool.terminate()
            pool.join()

    bad = [r for r in results if not r["ok"]]
    if bad:
        sys.stderr.write(bad[0]["error"] + "\n")
        if len(bad) > 1:
            sys.stderr.write(f"(... and {len(bad) - 1} more shard(s) failed)\n")
        print(f"HARNESS-ERROR property={pid} ({'inconclusive' if bad[0].get('inconclusive') else 'exception in check machinery'})")
        return 2

    counters = collections.Counter()
    hashes, samples, violations = set(), [], []
    known_hits = collections.Counter()
    evaluations = distinct_extra = 0
    extra = {}
    for r in results:
        counters.update(r["counters"]); hashes |= r["hashes"]
        evaluations += r["evaluations"]; distinct_extra += r["distinct_extra"]
        known_hits.update(r["known_hits"]); violations += r["violations"]
        for k, v in r["extra"].items():
            if isinstance(v, (int, float)) and not isinstance(v, bool):
                extra[k] = extra.get(k, 0) + v
            elif isinstance(v, list):
                extra.setdefault(k, []).extend(v)
            else:
                extra[k] = v
    per_part = collections.Counter()
    for r in results:
        for s in r["samples"]:
            if len(samples) < 10 and per_part[s["part"]] < 2:
                samples.append(s); per_part[s["part"]] += 1
    samples = json.loads(canon(samples))

    listed = _listed_findings(pid)
    rc = 0
    for fid, ent in listed.items():
        if ent.get("status") == "known":
            n = known_hits.get(fid, 0)
            print(f"KNOWN-FINDING: property={pid} {ent['what']} [id={fid}; reproduced {n}x in this run]")
    seen = set()
    for i, v in enumerate(violations):
        # one report per root-cause bucket (part, kind, innermost implementation frames)
        key = canon([v["part"], v["kind"], v["detail"].get("frames", [])[-1:] if isinstance(v["detail"], dict) else None])
        if key in seen:
            continue
        seen.add(key)
        path = write_replay(pid, v, i)
        print(f"VIOLATION property={pid} replay={os.path.relpath(path, HERE)}")
        print(f"  part={v['part']} kind={v['kind']} detail={canon(v['detail'])[:600]}")
        rc = 1

    missing = [k for k in getattr(mod, "REQUIRED", []) if (only is None) and counters.get(k, 0) == 0]
    if callable(getattr(mod, "required", None)) and only is None:
        missing = [k for k in mod.required(tier) if counters.get(k, 0) == 0]
    distinct = len(hashes) + distinct_extra
    cov = {
        "evaluations": evaluations,
        "distinct_nontrivial": distinct,
        "rule": mod.RULE,
        "samples": samples,
        "classes": dict(sorted(counters.items())),
        "known_finding_hits": dict(known_hits),
        "shards": nshards,
    }
    cov.update(json.loads(canon(extra)))
    if hasattr(mod, "coverage_extra"):
        cov.update(mod.coverage_extra(tier, counters, extra))
    ev = {
        "property_id": pid, "tier": tier, "seed": seed, "level": mod.LEVEL,
        "coverage": cov, "assumptions": list(mod.ASSUMPTIONS),
        "wall_s": round(time.time() - t0, 2), "violations": len(seen),
    }
    if only is None and not os.environ.get("VERIF_NO_EVIDENCE"):
        os.makedirs(os.path.join(HERE, "evidence"), exist_ok=True)
        with open(os.path.join(HERE, "evidence", f"{pid}.json"), "w") as f:
            json.dump(ev, f, indent=1)
    print(f"{pid} {tier} seed={seed}: evaluations={evaluations} distinct_nontrivial={distinct} "
          f"violations={len(seen)} known_hits={dict(known_hits)} wall={ev['wall_s']}s")
    if rc == 0 and missing:
        print(f"HARNESS-ERROR property={pid} generator did not reach: {missing}")
        return 2
    if rc == 0 and (evaluations < 1 or distinct < 2) and only is None:
        print(f"HARNESS-ERROR property={pid} vacuous run")
        return 2
    return rc


def replay(pid, path):
    modname = f"vchecks.{pid.lower()}"
    mod = importlib.import_module(modname)
    with open(path) as f:
        rec = json.load(f)
    warnings.simplefilter("ignore")
    ctx = Ctx(mod, "quick", 0, 0, 1)
    for part in mod.parts("thorough") + mod.parts("quick"):
        if part.name == rec["part"] and part.body is not None:
            ctx.part = part.name
            try:
                ctx.guarded(part.body, rec["case"])
            except Mismatch as mm:
                print(f"VIOLATION property={pid} replay={path}")
                print(f"  part={part.name} kind={mm.kind} detail={canon(mm.detail)[:2000]}")
                return 1
            if ctx.known_hits:
                for fid in ctx.known_hits:
                    print(f"KNOWN-FINDING: property={pid} id={fid} (replayed case matches a listed finding)")
            print(f"replay passed: property={pid} part={part.name}")
            return 0
    print(f"HARNESS-ERROR no part named {rec['part']} with a replayable body")
    return 2


def main(argv):
    if len(argv) < 2:
        print(__doc__); return 2
    pid = argv[0].upper()
    os.chdir(HERE)
    seed = int(os.environ.get("VERIF_SEED", "1") or 1)
    if argv[1] == "--replay":
        return replay(pid, argv[2])
    tier = argv[1]
    if tier not in ("quick", "thorough"):
        print(__doc__); return 2
    only = None
    if len(argv) > 3 and argv[2] == "--only":
        only = set(argv[3].split(","))
    try:
        return run_check(pid, tier, seed, only)
    except Exception:
        traceback.print_exc()
        print(f"HARNESS-ERROR property={pid}")
        return 2


if __name__ == "__main__":
    sys.exit(main(sys.argv[1:]))
