"""Simulation helpers: one-testbench schedule driver, scheduler permutation, state snapshots.

Only `Simulator`, `add_testbench`, `ctx.set`, `ctx.get` (public API) are used to drive designs; the
internal attributes used by the permutation / snapshot helpers are checked for and reported as a
harness error (exit 2) if they disappear.
"""
import warnings
from amaranth.sim import Simulator
from vlib.runner import HarnessError


def run_tb(design, tb, *, sim=None):
    """Run `tb(ctx)` (an async function) as the only testbench of a fresh simulator."""
    with warnings.catch_warnings():
        warnings.simplefilter("ignore")
        sim = sim or Simulator(design)
        sim.add_testbench(tb)
        sim.run()
    return sim


def engine_of(sim):
    eng = getattr(sim, "_engine", None)
    if eng is None or not hasattr(eng, "_processes") or not hasattr(eng, "_state"):
        raise HarnessError("Simulator internals (_engine._processes/_state) not found")
    return eng


# ------------------------------------------------------------------------------ state snapshots
# Used for complete reachable-state exploration (C12/C13): the whole simulation state lives in
# engine._state.slots (signals: curr/next; memories: data/write_queue). Snapshots are taken and
# restored only at quiescence (no pending changes, no runnable process).

def _slots(sim):
    eng = engine_of(sim)
    st = eng._state
    if not hasattr(st, "slots") or not hasattr(st, "pending"):
        raise HarnessError("engine state has no slots/pending")
    return st


def snapshot(sim):
    st = _slots(sim)
    if st.pending:
        raise HarnessError("snapshot taken while changes are pending")
    out = []
    for s in st.slots:
        if hasattr(s, "curr"):
            out.append(s.curr)
        elif hasattr(s, "data"):
            out.append(tuple(s.data))
        else:
            raise HarnessError(f"unknown slot type {type(s).__name__}")
    return tuple(out)


def restore(sim, snap):
    st = _slots(sim)
    if len(snap) != len(st.slots):
        raise HarnessError("snapshot does not match the design (slots were added lazily)")
    for s, v in zip(st.slots, snap):
        if hasattr(s, "curr"):
            s.curr = s.next = v
        else:
            s.data = list(v)
            s.write_queue.clear()
    st.pending.clear()
