"""Simulation helpers: one-testbench schedule driver, scheduler permutation, state snapshots.

Only `Simulator`, `add_testbench`, `ctx.set`, `ctx.get` (public API) are used to drive designs; the
internal attributes used by the permutation / snapshot helpers are checked for and reported as a
harness error (exit 2) if they disappear.
"""
import warnings
from amaranth.sim import Simulator
from vlib.runner import HarnessError


def run_tb(design, tb, *, sim=None):
    """Run `tb(ctx)` (an async function) as the only testbench of a fresh simulator."""
    with warnings.catch_warnings():
        warnings.simplefilter("ignore")
        sim = sim or Simulator(design)
        sim.add_testbench(tb)
        sim.run()
    return sim


def engine_of(sim):
    eng = getattr(sim, "_engine", None)
    if eng is None or not hasattr(eng, "_processes") or not hasattr(eng, "_state"):
        raise HarnessError("Simulator internals (_engine._processes/_state) not found")
    return eng
