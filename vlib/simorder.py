"""Scheduler-order control for the Python simulator, done from the harness (no source change).

The simulator keeps its runnable processes, pending commits and active triggers in plain `set`s, so the
order in which ready processes run within a delta cycle is whatever the allocator happens to produce.
`install()` rebinds the name `set` in the simulator's modules to `PSet`, a set subclass that remembers
insertion order and iterates in an order chosen by the current *policy*:

    None            insertion order (deterministic baseline)
    "reverse"       reversed insertion order
    ("shuffle", n)  a fresh pseudo-random permutation at every iteration, from a PRNG seeded with n
    ("rotate", n)   insertion order rotated by (n + number of iterations so far)

If the simulator stops using module-level `set()` calls the shim silently has no effect; `selftest()`
detects that (a check relying on permutations then exits 2 instead of passing vacuously).
"""
import random

_policy = None
_rng = random.Random(0)
_iter_count = 0
STATS = {"iterations": 0, "multi_runnable": 0, "orders": []}


class PSet(set):
    def __init__(self, iterable=()):
        super().__init__()
        self._ord = {}
        self._n = 0
        for x in iterable:
            self.add(x)

    # -- mutation (keeps the order table in step) ---------------------------------------------
    def add(self, x):
        if x not in self._ord:
            self._ord[x] = self._n
            self._n += 1
        super().add(x)

    def update(self, *others):
        for o in others:
            for x in o:
                self.add(x)

    def __ior__(self, other):
        self.update(other)
        return self

    def discard(self, x):
        self._ord.pop(x, None)
        super().discard(x)

    def remove(self, x):
        super().remove(x)
        self._ord.pop(x, None)

    def pop(self):
        x = next(iter(self))
        self.discard(x)
        return x

    def clear(self):
        self._ord.clear()
        super().clear()

    def difference_update(self, *others):
        for o in others:
            for x in list(o):
                self.discard(x)

    def __isub__(self, other):
        self.difference_update(other)
        return self

    def copy(self):
        return PSet(self)

    # -- ordered iteration -----------------------------------------------------------------------
    def _ordered(self):
        return sorted(set.__iter__(self), key=lambda x: self._ord.get(x, 1 << 60))

    def __iter__(self):
        global _iter_count
        order = self._ordered()
        if len(order) > 1:
            _iter_count += 1
            pol = _policy
            if pol == "reverse":
                order.reverse()
            elif isinstance(pol, tuple) and pol[0] == "shuffle":
                _rng.shuffle(order)
            elif isinstance(pol, tuple) and pol[0] == "rotate":
                k = (pol[1] + _iter_count) % len(order)
                order = order[k:] + order[:k]
            runnable = [self._ord[x] for x in order if getattr(x, "runnable", False) is True]
            if len(runnable) >= 2:
                STATS["multi_runnable"] += 1
                if len(STATS["orders"]) < 64:
                    STATS["orders"].append(tuple(runnable))
            STATS["iterations"] += 1
        return iter(order)


def install():
    import amaranth.sim._pyrtl as _pyrtl
    import amaranth.sim.pysim as _pysim
    import amaranth.sim._async as _async
    for mod in (_pyrtl, _pysim, _async):
        mod.set = PSet


def uninstall():
    import amaranth.sim._pyrtl as _pyrtl
    import amaranth.sim.pysim as _pysim
    import amaranth.sim._async as _async
    for mod in (_pyrtl, _pysim, _async):
        if "set" in vars(mod):
            del mod.set


def set_policy(policy):
    """Select the iteration order for simulators created/run from now on; resets statistics."""
    global _policy, _rng, _iter_count
    _policy = policy
    _iter_count = 0
    if isinstance(policy, tuple):
        _rng = random.Random(policy[1])
    STATS["iterations"] = 0
    STATS["multi_runnable"] = 0
    STATS["orders"] = []


def engine_uses_pset(sim):
    eng = getattr(sim, "_engine", None)
    return eng is not None and isinstance(getattr(eng, "_processes", None), PSet)
